------------------------------ MODULE Emitter ------------------------------
(***************************************************************************)
(* L model of emitter.py at event level: the state machine                 *)
(* (self.state / self.states / self.events / self.indents / context flags  *)
(* / column, whitespace, indention, open_ended), one operator per expect_* *)
(* method, the look-ahead queue (need_more_events / need_events), the      *)
(* checkers, process_anchor / process_tag / process_scalar, prepare_*.     *)
(*                                                                         *)
(* Events are records [k, a, t, i, v, s, fs, x, ver, tg]:                  *)
(*   a   anchor class: "" (None) | "a1" | "a2" | "bad" (invalid character) *)
(*       | "empty" ('')                                                    *)
(*   t   tag class: "" (None) | "!" | "local" (!foo) | "core" (!!str) |    *)
(*       "uri" (non-ASCII, verbatim) | "hdl" (tag:h1:x, prefix of the      *)
(*       handle !h1!) | "hu" (prefix of the handle !u! whose prefix is     *)
(*       non-ASCII) | "st" / "bt" (prefix of a redefined `!!` / `!`) |      *)
(*       "empty" ('')                                                      *)
(*   i   implicit: <<plain, quoted>> for scalars, <<flag>> for collections *)
(*   v   scalar class (ScalarText gives its text), s style request,        *)
(*   fs  flow_style, x explicit, ver in {"", "1.1", "1.2", "2.0"},          *)
(*   tg  %TAG class: "" | "h1" | "hu" (non-ASCII prefix) | "hs" (`!!`        *)
(*       redefined) | "hb" (`!` redefined) | "badh" | "nop"                 *)
(* The text is produced by the writer operators of Scalars.tla (scalars    *)
(* are written character by character in the exact writer state), next to  *)
(* it the item list that the reader model (EmitRead.tla) consumes.         *)
(*                                                                         *)
(* Outcomes: "run", "EmitterError", "Crash" (an exception that is not an   *)
(* emitter error, e.g. the TypeError of prepare_tag_prefix).               *)
(* Variant "libyaml" models the one place where libyaml's emitter is known *)
(* to differ structurally (yaml_emitter_check_empty_document returns 0).   *)
(***************************************************************************)
EXTENDS Integers, Sequences, FiniteSets, TLC

CONSTANTS Fix,            \* repairs modelled ("D3","D4","D9" in Scalars, "D5" here)
          Variant         \* "python" | "libyaml"
S == INSTANCE Scalars

NoneI == -1               \* self.indent is None
Last(s) == s[Len(s)]
Front(s) == SubSeq(s, 1, Len(s) - 1)

(***************************************************************************)
(* attribute classes and their concrete text                               *)
(***************************************************************************)
ScalarText(c) ==
  CASE c = "empty" -> <<>>
    [] c = "word" -> <<97>>
    [] c = "words" -> <<97, 32, 98>>
    [] c = "multiline" -> <<97, 10, 98>>
    [] c = "lead" -> <<32, 97>>
    [] c = "trail" -> <<97, 32>>
    [] c = "ind" -> <<45, 32, 97>>
    [] c = "nonascii" -> <<233>>
    [] c = "nl" -> <<97, 10>>
    [] c = "nlnl" -> <<97, 10, 10>>
    [] c = "long" -> <<97, 97, 97, 32, 98, 98, 98, 32, 99, 99>>
    [] c = "docsep" -> <<45, 45, 45>>
    [] c = "dashkey" -> <<45, 45, 45, 32, 97>>                                       \* `--- a`: a marker word, then text
    [] c = "dotkey" -> <<46, 46, 46, 32, 97>>                                        \* `... a`
    [] c = "dotsfold" -> <<97, 97, 97, 97, 97, 97, 32, 46, 46, 46, 32, 98>>          \* `aaaaaa ... b`: marker word at a fold point (width 5)
    [] c = "dashfold" -> <<97, 97, 97, 97, 97, 97, 32, 45, 45, 45>>                  \* `aaaaaa ---`
    [] c = "x" -> <<120>>
AnchorText(a) == IF a = "a1" THEN <<97, 49>> ELSE IF a = "a2" THEN <<97, 50>> ELSE <<>>
\* the tag as the application sees it: prefix \o suffix (any injective encoding serves H; these are the concrete texts)
LocalP == <<33>>                                          \* !
CoreP == <<116, 97, 103, 58, 121, 97, 109, 108, 46, 111, 114, 103, 44, 50, 48, 48, 50, 58>>                     \* tag:yaml.org,2002:
H1P == <<116, 58, 104, 49, 58>>                           \* t:h1:
UP == <<116, 58, 233, 58>>                                \* t:e-acute:
SecP == <<116, 58, 115, 58>>                              \* t:s:   (prefix of a redefined `!!`)
BangP == <<116, 58, 98, 58>>                              \* t:b:   (prefix of a redefined `!`)
TagValue(t) ==
  CASE t = "" -> <<>> [] t = "!" -> <<33>> [] t = "local" -> LocalP \o <<102>> [] t = "core" -> CoreP \o <<115>>
    [] t = "uri" -> <<116, 58, 233>> [] t = "hdl" -> H1P \o <<120>> [] t = "hu" -> UP \o <<120>>
    [] t = "st" -> SecP \o <<120>> [] t = "bt" -> BangP \o <<120>>
    [] OTHER -> <<63>>
\* what a reader makes of a tag token: hd = handle text ("none" for `!` alone and verbatim tags), sfx = suffix,
\* handles = the %TAG handles the document declares; <<0>> = undefined handle
ResolveTag(hd, sfx, tag, handles) ==
  CASE hd = "none" -> TagValue(tag)
    [] hd = "!"  -> (IF "hb" \in handles THEN BangP ELSE LocalP) \o sfx
    [] hd = "!!" -> (IF "hs" \in handles THEN SecP ELSE CoreP) \o sfx
    [] hd = "h1" -> IF "h1" \in handles THEN H1P \o sfx ELSE <<0>>
    [] hd = "hu" -> IF "hu" \in handles THEN UP \o sfx ELSE <<0>>
\* prepare_tag: the text written for a tag; tp = handles declared by the current document.  tag_prefixes keeps the default
\* prefixes `!` and `tag:yaml.org,2002:` even when the document redefines `!` / `!!` (defect site; repair "D11e": a
\* redefined handle no longer stands for its default prefix, the tag is then written verbatim)
Verb(body) == [chars |-> <<33, 60>> \o body \o <<62>>, hd |-> "none", sfx |-> <<>>]
Short(hdchars, hd, sfx) == [chars |-> hdchars \o sfx, hd |-> hd, sfx |-> sfx]
TagWritten(t, tp) ==
  CASE t = "!" -> [chars |-> <<33>>, hd |-> "none", sfx |-> <<>>]
    [] t = "local" -> IF "hb" \in tp /\ "D11e" \in Fix THEN Verb(<<33, 102>>) ELSE Short(<<33>>, "!", <<102>>)            \* !f
    [] t = "core" -> IF "hs" \in tp /\ "D11e" \in Fix THEN Verb(CoreP \o <<115>>) ELSE Short(<<33, 33>>, "!!", <<115>>)   \* !!s
    [] t = "uri" -> Verb(<<116, 58, 37, 67, 51, 37, 65, 57>>)                                                            \* !<t:%C3%A9>
    [] t = "hdl" -> IF "h1" \in tp THEN Short(<<33, 104, 49, 33>>, "h1", <<120>>) ELSE Verb(H1P \o <<120>>)              \* !h1!x
    [] t = "hu" -> IF "hu" \in tp THEN Short(<<33, 117, 33>>, "hu", <<120>>)                                             \* !u!x
                   ELSE Verb(<<116, 58, 37, 67, 51, 37, 65, 57, 58, 120>>)
    [] t = "st" -> IF "hs" \in tp THEN Short(<<33, 33>>, "!!", <<120>>) ELSE Verb(SecP \o <<120>>)                       \* !!x
    [] t = "bt" -> IF "hb" \in tp THEN Short(<<33>>, "!", <<120>>) ELSE Verb(BangP \o <<120>>)                           \* !x
ShadowedDefault(t, tp) == "D11e" \notin Fix /\ ((t = "core" /\ "hs" \in tp) \/ (t = "local" /\ "hb" \in tp))

(***************************************************************************)
(* the machine record                                                      *)
(*   w      writer record of Scalars (out = the whole text so far)         *)
(*   items  <<[t, off, ...]>> tokens written, off = offset of the token    *)
(*   opt    [canonical, best, width, uni, lb]                              *)
(***************************************************************************)
M0(opt) == [st |-> "stream_start", states |-> <<>>, events |-> <<>>, indents |-> <<>>, indent |-> NoneI, flow |-> 0,
            root |-> FALSE, seqc |-> FALSE, mapc |-> FALSE, sk |-> FALSE, w |-> S!W0(0, TRUE, TRUE), items |-> <<>>,
            tp |-> {}, style |-> "-", ptag |-> "", panchor |-> "", outcome |-> "run", why |-> "-", trail |-> {}, diag |-> {}, opt |-> opt, ndocs |-> 0, lysite |-> FALSE,
            snaps |-> <<>>]

Fail(m, why) == [m EXCEPT !.outcome = "EmitterError", !.why = why]
CrashM(m, why) == [m EXCEPT !.outcome = "Crash", !.why = why]
Then(m, F(_)) == IF m.outcome # "run" THEN m ELSE F(m)
Tr(m, name) == [m EXCEPT !.trail = @ \cup {name}]
Goto(m, s) == [m EXCEPT !.st = s]
Push(m, s) == [m EXCEPT !.states = Append(@, s)]
PopState(m) == IF m.states = <<>> THEN CrashM(m, "pop from empty states")
               ELSE [m EXCEPT !.st = Last(m.states), !.states = Front(m.states)]
PopIndent(m) == IF m.indents = <<>> THEN CrashM(m, "pop from empty indents")
                ELSE [m EXCEPT !.indent = Last(m.indents), !.indents = Front(m.indents)]
Ind0(m) == IF m.indent = NoneI THEN 0 ELSE m.indent

\* write_indicator, with the token it stands for appended to items
WriteInd(m, chars, need, wsAfter, indn, item) ==
  LET off == Len(m.w.out) + (IF m.w.ws \/ ~need THEN 0 ELSE 1)
  IN  [m EXCEPT !.w = S!WInd(m.w, chars, need, wsAfter, indn),
                !.items = Append(@, item @@ [off |-> off, end |-> off + Len(chars)])]
WriteIndent(m) == [m EXCEPT !.w = S!WIndentTo(m.w, Ind0(m), m.opt.lb)]
Tok(t) == [t |-> t]

IncreaseIndent(m, flow, indentless) ==
  [m EXCEPT !.indents = Append(@, m.indent),
            !.indent = IF m.indent = NoneI THEN (IF flow THEN m.opt.best ELSE 0)
                       ELSE IF ~indentless THEN m.indent + m.opt.best ELSE m.indent]

(***************************************************************************)
(* the look-ahead queue                                                    *)
(***************************************************************************)
RECURSIVE NeedEventsLoop(_, _, _)
NeedEventsLoop(evs, j, level) ==                 \* TRUE when the loop returned False (level < 0)
  IF j > Len(evs) THEN FALSE
  ELSE LET k == evs[j].k
           l2 == IF k \in {"DocumentStart", "SequenceStart", "MappingStart"} THEN level + 1
                 ELSE IF k \in {"DocumentEnd", "SequenceEnd", "MappingEnd"} THEN level - 1
                 ELSE IF k = "StreamEnd" THEN -1 ELSE level
       IN  IF l2 < 0 THEN TRUE ELSE NeedEventsLoop(evs, j + 1, l2)
NeedEvents(evs, count) == IF NeedEventsLoop(evs, 2, 0) THEN FALSE ELSE Len(evs) < count + 1
NeedMoreEvents(evs) ==
  IF evs = <<>> THEN TRUE
  ELSE CASE evs[1].k = "DocumentStart" -> NeedEvents(evs, 1)
         [] evs[1].k = "SequenceStart" -> NeedEvents(evs, 2)
         [] evs[1].k = "MappingStart"  -> NeedEvents(evs, 3)
         [] OTHER -> FALSE

(***************************************************************************)
(* checkers (ev = self.event, m.events = the queue behind it)              *)
(***************************************************************************)
CheckEmptySequence(m, ev) == ev.k = "SequenceStart" /\ m.events # <<>> /\ m.events[1].k = "SequenceEnd"
CheckEmptyMapping(m, ev)  == ev.k = "MappingStart" /\ m.events # <<>> /\ m.events[1].k = "MappingEnd"
\* check_empty_document (emitter.py:430-435); `event.implicit` is a non-empty tuple, hence always true.
\* Repair "D10e": a tag that will be elided (plain-implicit) is as good as no tag.
PyEmptyDocument(m, ev) ==
  ev.k = "DocumentStart" /\ m.events # <<>>
  /\ LET e == m.events[1]
     IN  e.k = "Scalar" /\ e.a = "" /\ (e.t = "" \/ ("D10e" \in Fix /\ e.i[1])) /\ ScalarText(e.v) = <<>>
CheckEmptyDocument(m, ev) == IF Variant = "libyaml" THEN FALSE ELSE PyEmptyDocument(m, ev)
\* the root node for which nothing at all is written: no anchor, empty value in plain style, tag elided
RootWritesNothing(m) ==
  m.events # <<>> /\ LET e == m.events[1]
                     IN  e.k = "Scalar" /\ e.a = "" /\ ScalarText(e.v) = <<>> /\ e.s = "none" /\ e.i[1] /\ ~m.opt.canonical

Analysis(m, ev) == S!Analyze(ScalarText(ev.v), m.opt.uni)
\* prepare_anchor / prepare_tag as outcome only: "-" fine, else the emitter error
PrepAnchorErr(a) == IF a = "empty" THEN "anchor must not be empty" ELSE IF a = "bad" THEN "invalid character in the anchor" ELSE "-"
PrepTagErr(t) == IF t = "empty" THEN "tag must not be empty" ELSE "-"

\* check_simple_key -> [m (possibly failed), r]
CheckSimpleKey(m, ev) ==
  LET node == ev.k \in {"Alias", "Scalar", "SequenceStart", "MappingStart"}
      aerr == IF node /\ ev.a # "" THEN PrepAnchorErr(ev.a) ELSE "-"
      terr == IF ev.k \in {"Scalar", "SequenceStart", "MappingStart"} /\ ev.t # "" THEN PrepTagErr(ev.t) ELSE "-"
      alen == IF node /\ ev.a # "" THEN Len(AnchorText(ev.a)) ELSE 0
      tlen == IF ev.k \in {"Scalar", "SequenceStart", "MappingStart"} /\ ev.t # "" /\ terr = "-" THEN Len(TagWritten(ev.t, m.tp).chars) ELSE 0
      slen == IF ev.k = "Scalar" THEN Len(ScalarText(ev.v)) ELSE 0
  IN  IF aerr # "-" THEN [m |-> Fail(m, aerr), r |-> FALSE]
      ELSE IF terr # "-" THEN [m |-> Fail(m, terr), r |-> FALSE]
      ELSE [m |-> [m EXCEPT !.panchor = IF node /\ ev.a # "" THEN ev.a ELSE @,                      \* self.prepared_anchor / self.prepared_tag
                            !.ptag = IF ev.k \in {"Scalar", "SequenceStart", "MappingStart"} /\ ev.t # "" THEN ev.t ELSE @],
            r |-> alen + tlen + slen < 128
                  /\ (ev.k = "Alias"
                      \/ (ev.k = "Scalar" /\ ~Analysis(m, ev).empty /\ ~Analysis(m, ev).multiline)
                      \/ CheckEmptySequence(m, ev) \/ CheckEmptyMapping(m, ev))]

(***************************************************************************)
(* anchor, tag, scalar processors                                          *)
(***************************************************************************)
\* prepared_anchor / prepared_tag cache what check_simple_key prepared for THIS event; every path resets them
ProcessAnchor(m, ev, indicator) ==
  IF ev.a = "" THEN [m EXCEPT !.panchor = ""]
  ELSE LET a == IF m.panchor # "" THEN m.panchor ELSE ev.a
       IN  IF PrepAnchorErr(a) # "-" THEN Fail(m, PrepAnchorErr(a))
           ELSE [WriteInd(m, <<indicator>> \o AnchorText(a), TRUE, FALSE, FALSE,
                          [t |-> IF indicator = 42 THEN "alias" ELSE "anchor", a |-> a]) EXCEPT !.panchor = ""]

WriteTag(m, t0) ==
  IF t0 = "" THEN Fail(m, "tag is not specified")
  ELSE LET t == IF m.ptag # "" THEN m.ptag ELSE t0                     \* if self.prepared_tag is None: prepare_tag(tag)
       IN  IF PrepTagErr(t) # "-" THEN Fail(m, PrepTagErr(t))
           ELSE LET tw == TagWritten(t, m.tp)
                    m1 == WriteInd(m, tw.chars, TRUE, FALSE, FALSE, [t |-> "tag", tag |-> t, hd |-> tw.hd, sfx |-> tw.sfx])
                IN  [m1 EXCEPT !.ptag = "", !.diag = IF ShadowedDefault(t, m.tp) THEN @ \cup {"default-handle-shadowed"} ELSE @]

ProcessTag(m, ev) ==
  IF ev.k = "Scalar"
  THEN LET style == S!ChooseStyle(Analysis(m, ev), ev.s, ev.i[1], m.flow > 0, m.sk, m.opt.canonical)
           m1 == [m EXCEPT !.style = style]
       IN  IF (~m.opt.canonical \/ ev.t = "") /\ ((style = "plain" /\ ev.i[1]) \/ (style # "plain" /\ ev.i[2]))
           THEN [m1 EXCEPT !.ptag = ""]
           ELSE IF ev.i[1] /\ ev.t = "" THEN WriteTag([m1 EXCEPT !.ptag = ""], "!") ELSE WriteTag(m1, ev.t)
  ELSE IF (~m.opt.canonical \/ ev.t = "") /\ ev.i[1] THEN [m EXCEPT !.ptag = ""]
  ELSE WriteTag(m, ev.t)

ProcessScalar(m, ev) ==
  LET text == ScalarText(ev.v)
      P == [indent |-> Ind0(m), width |-> m.opt.width, lb |-> m.opt.lb, uni |-> m.opt.uni, best |-> m.opt.best]
      w2 == S!WriteScalar([m.w EXCEPT !.diag = {}], text, m.style, P, ~m.sk, m.root)
      off == Len(m.w.out) + (IF m.w.ws THEN 0 ELSE 1)
      body == SubSeq(w2.out, Len(m.w.out) + 1, Len(w2.out))
      cxrec == [style |-> m.style, flow |-> m.flow > 0, sk |-> m.sk, root |-> m.root, c0 |-> m.w.col, ws0 |-> m.w.ws,
                indent |-> Ind0(m)]
      m2 == [m EXCEPT !.w = w2, !.style = "-", !.diag = @ \cup w2.diag,
                      !.items = IF m.style = "plain" /\ text = <<>> THEN @
                                ELSE Append(@, [t |-> "scalar", off |-> off, end |-> Len(w2.out), style |-> m.style, v |-> ev.v,
                                                ml |-> \E j \in DOMAIN body : body[j] \in S!SBrk, cx |-> cxrec])]
  IN  IF w2.crash THEN CrashM(m2, "TypeError in write_plain") ELSE m2

(***************************************************************************)
(* node handlers (called inside a state method)                            *)
(***************************************************************************)
ExpectAlias(m, ev) ==
  IF ev.a = "" THEN Fail(Tr(m, "expect_alias"), "anchor is not specified for alias")
  ELSE Then(ProcessAnchor(Tr(m, "expect_alias"), ev, 42), PopState)

ExpectScalar(m, ev) ==
  LET m1 == ProcessScalar(IncreaseIndent(Tr(m, "expect_scalar"), TRUE, FALSE), ev)
  IN  Then(m1, LAMBDA x : Then(PopIndent(x), PopState))

ExpectFlowSequence(m) ==
  Goto(IncreaseIndent([WriteInd(Tr(m, "expect_flow_sequence"), <<91>>, TRUE, TRUE, FALSE, Tok("[")) EXCEPT !.flow = @ + 1], TRUE, FALSE),
       "first_flow_sequence_item")
ExpectFlowMapping(m) ==
  Goto(IncreaseIndent([WriteInd(Tr(m, "expect_flow_mapping"), <<123>>, TRUE, TRUE, FALSE, Tok("{")) EXCEPT !.flow = @ + 1], TRUE, FALSE),
       "first_flow_mapping_key")
ExpectBlockSequence(m) ==
  Goto(IncreaseIndent(Tr(m, "expect_block_sequence"), FALSE, m.mapc /\ ~m.w.ind), "first_block_sequence_item")
ExpectBlockMapping(m) == Goto(IncreaseIndent(Tr(m, "expect_block_mapping"), FALSE, FALSE), "first_block_mapping_key")

ExpectNode(m0, ev, root, seqc, mapc, sk) ==
  LET m == [Tr(m0, "expect_node") EXCEPT !.root = root, !.seqc = seqc, !.mapc = mapc, !.sk = sk]
  IN  IF ev.k = "Alias" THEN ExpectAlias(m, ev)
      ELSE IF ev.k \in {"Scalar", "SequenceStart", "MappingStart"}
      THEN LET m2 == Then(ProcessAnchor(m, ev, 38), LAMBDA x : ProcessTag(x, ev))
           IN  Then(m2, LAMBDA x :
                 CASE ev.k = "Scalar" -> ExpectScalar(x, ev)
                   [] ev.k = "SequenceStart" ->
                        IF x.flow > 0 \/ x.opt.canonical \/ ev.fs \/ CheckEmptySequence(x, ev) THEN ExpectFlowSequence(x)
                        ELSE ExpectBlockSequence(x)
                   [] OTHER ->
                        IF x.flow > 0 \/ x.opt.canonical \/ ev.fs \/ CheckEmptyMapping(x, ev) THEN ExpectFlowMapping(x)
                        ELSE ExpectBlockMapping(x))
      ELSE Fail(m, "expected NodeEvent")

(***************************************************************************)
(* the state methods: each takes the machine after self.event was popped   *)
(***************************************************************************)
ExpectStreamStart(m, ev) ==
  IF ev.k = "StreamStart" THEN Goto(m, "first_document_start") ELSE Fail(m, "expected StreamStartEvent")
ExpectNothing(m, ev) == Fail(m, "expected nothing")

PrepVersionErr(v) == v = "2.0"
\* the %TAG directives of a DocumentStart: -> machine with tp and the directive lines written
TagDirectives(m, tg) ==
  CASE tg = "" -> m
    [] tg = "badh" -> Fail(m, "tag handle must start and end with '!'")
    [] tg = "nop" -> Fail(m, "tag prefix must not be empty")
    [] tg = "hu" /\ "D5" \notin Fix -> CrashM([m EXCEPT !.diag = @ \cup {"tag-prefix-non-ascii"}], "TypeError in prepare_tag_prefix: ord() of an int")
    [] OTHER ->
         LET line == IF tg = "hs" THEN <<37, 84, 65, 71, 32, 33, 33, 32>> \o SecP                                   \* %TAG !! t:s:
                     ELSE IF tg = "hb" THEN <<37, 84, 65, 71, 32, 33, 32>> \o BangP                                 \* %TAG ! t:b:
                     ELSE IF tg = "h1" THEN <<37, 84, 65, 71, 32, 33, 104, 49, 33, 32, 116, 58, 104, 49, 58>>            \* %TAG !h1! t:h1:
                     ELSE <<37, 84, 65, 71, 32, 33, 117, 33, 32, 116, 58, 37, 67, 51, 37, 65, 57, 58>>              \* %TAG !u! t:%C3%A9:
         IN  [m EXCEPT !.tp = {tg}, !.w = S!WBreak(S!WData(m.w, line), m.opt.lb),
                       !.items = Append(@, [t |-> "tagdir", h |-> tg, off |-> Len(m.w.out), end |-> Len(m.w.out) + Len(line)])]

ExpectDocumentStart(m, ev, first) ==
  IF ev.k = "DocumentStart"
  THEN LET m1 == IF (ev.ver # "" \/ ev.tg # "") /\ m.w.open
                 THEN WriteIndent(WriteInd(m, <<46, 46, 46>>, TRUE, FALSE, FALSE, Tok("...")))
                 ELSE m
           m2 == IF ev.ver = "" THEN m1
                 ELSE IF PrepVersionErr(ev.ver) THEN Fail(m1, "unsupported YAML version")
                 ELSE [m1 EXCEPT !.w = S!WBreak(S!WData(m1.w, <<37, 89, 65, 77, 76, 32, 49, 46>> \o (IF ev.ver = "1.1" THEN <<49>> ELSE <<50>>)), m.opt.lb),
                                 !.items = Append(@, [t |-> "verdir", ver |-> ev.ver, off |-> Len(m1.w.out), end |-> Len(m1.w.out) + 9])]
           m3 == Then(m2, LAMBDA x : TagDirectives([x EXCEPT !.tp = {}], ev.tg))
       IN  Then(m3, LAMBDA x :
             LET emptydoc == CheckEmptyDocument(x, ev)
                 implicit == first /\ ~ev.x /\ ~x.opt.canonical /\ ev.ver = "" /\ ev.tg = "" /\ ~emptydoc
                 \* the defect site of libyaml: an implicit document start in front of an empty plain root
                 x1 == IF implicit /\ RootWritesNothing(x) THEN [x EXCEPT !.diag = @ \cup {"empty-document-not-forced-explicit"}] ELSE x
                 \* the explicit start is owed to check_empty_document alone (where libyaml, which lacks it, differs)
                 x1b == IF ~implicit /\ emptydoc /\ first /\ ~ev.x /\ ~x.opt.canonical /\ ev.ver = "" /\ ev.tg = ""
                        THEN [x1 EXCEPT !.lysite = TRUE] ELSE x1
                 x2 == IF implicit THEN x1
                       ELSE LET y == WriteInd(WriteIndent(x1b), <<45, 45, 45>>, TRUE, FALSE, FALSE, Tok("---"))
                            IN  IF y.opt.canonical THEN WriteIndent(y) ELSE y
             IN  Goto([x2 EXCEPT !.ndocs = @ + 1], "document_root"))
  ELSE IF ev.k = "StreamEnd"
  THEN LET m1 == IF m.w.open THEN WriteIndent(WriteInd(m, <<46, 46, 46>>, TRUE, FALSE, FALSE, Tok("..."))) ELSE m
       IN  Goto([m1 EXCEPT !.outcome = "done"], "nothing")
  ELSE Fail(m, "expected DocumentStartEvent")

ExpectDocumentEnd(m, ev) ==
  IF ev.k = "DocumentEnd"
  THEN LET m1 == WriteIndent(m)
           m2 == IF ev.x THEN WriteIndent(WriteInd(m1, <<46, 46, 46>>, TRUE, FALSE, FALSE, Tok("..."))) ELSE m1
       IN  Goto([m2 EXCEPT !.snaps = Append(@, Len(m2.w.out))], "document_start")         \* flush_stream
  ELSE Fail(m, "expected DocumentEndEvent")

ExpectDocumentRoot(m, ev) == ExpectNode(Push(m, "document_end"), ev, TRUE, FALSE, FALSE, FALSE)

FlowBreakIfWide(m) == IF m.opt.canonical \/ m.w.col > m.opt.width THEN WriteIndent(m) ELSE m

ExpectFlowSequenceItem(m, ev, first) ==
  IF ev.k = "SequenceEnd"
  THEN Then(PopIndent(m), LAMBDA x :
         LET x1 == [x EXCEPT !.flow = @ - 1]
             x2 == IF ~first /\ x1.opt.canonical THEN WriteIndent(WriteInd(x1, <<44>>, FALSE, FALSE, FALSE, Tok(","))) ELSE x1
         IN  PopState(WriteInd(x2, <<93>>, FALSE, FALSE, FALSE, Tok("]"))))
  ELSE LET m1 == IF first THEN m ELSE WriteInd(m, <<44>>, FALSE, FALSE, FALSE, Tok(","))
       IN  ExpectNode(Push(FlowBreakIfWide(m1), "flow_sequence_item"), ev, FALSE, TRUE, FALSE, FALSE)

ExpectFlowMappingKey(m, ev, first) ==
  IF ev.k = "MappingEnd"
  THEN Then(PopIndent(m), LAMBDA x :
         LET x1 == [x EXCEPT !.flow = @ - 1]
             x2 == IF ~first /\ x1.opt.canonical THEN WriteIndent(WriteInd(x1, <<44>>, FALSE, FALSE, FALSE, Tok(","))) ELSE x1
         IN  PopState(WriteInd(x2, <<125>>, FALSE, FALSE, FALSE, Tok("}"))))
  ELSE LET m1 == FlowBreakIfWide(IF first THEN m ELSE WriteInd(m, <<44>>, FALSE, FALSE, FALSE, Tok(",")))
           ck == IF m1.opt.canonical THEN [m |-> m1, r |-> FALSE] ELSE CheckSimpleKey(m1, ev)
       IN  Then(ck.m, LAMBDA x :
             IF ck.r THEN ExpectNode(Push(x, "flow_mapping_simple_value"), ev, FALSE, FALSE, TRUE, TRUE)
             ELSE ExpectNode(Push(WriteInd(x, <<63>>, TRUE, FALSE, FALSE, Tok("?")), "flow_mapping_value"), ev, FALSE, FALSE, TRUE, FALSE))

ExpectFlowMappingSimpleValue(m, ev) ==
  ExpectNode(Push(WriteInd(m, <<58>>, FALSE, FALSE, FALSE, Tok(":")), "flow_mapping_key"), ev, FALSE, FALSE, TRUE, FALSE)
ExpectFlowMappingValue(m, ev) ==
  ExpectNode(Push(WriteInd(FlowBreakIfWide(m), <<58>>, TRUE, FALSE, FALSE, Tok(":")), "flow_mapping_key"), ev, FALSE, FALSE, TRUE, FALSE)

ExpectBlockSequenceItem(m, ev, first) ==
  IF ~first /\ ev.k = "SequenceEnd" THEN Then(PopIndent(m), PopState)
  ELSE ExpectNode(Push(WriteInd(WriteIndent(m), <<45>>, TRUE, FALSE, TRUE, Tok("-")), "block_sequence_item"), ev, FALSE, TRUE, FALSE, FALSE)

ExpectBlockMappingKey(m, ev, first) ==
  IF ~first /\ ev.k = "MappingEnd" THEN Then(PopIndent(m), PopState)
  ELSE LET m1 == WriteIndent(m)
           ck == CheckSimpleKey(m1, ev)
       IN  Then(ck.m, LAMBDA x :
             IF ck.r THEN ExpectNode(Push(x, "block_mapping_simple_value"), ev, FALSE, FALSE, TRUE, TRUE)
             ELSE ExpectNode(Push(WriteInd(x, <<63>>, TRUE, FALSE, TRUE, Tok("?")), "block_mapping_value"), ev, FALSE, FALSE, TRUE, FALSE))

ExpectBlockMappingSimpleValue(m, ev) ==
  ExpectNode(Push(WriteInd(m, <<58>>, FALSE, FALSE, FALSE, Tok(":")), "block_mapping_key"), ev, FALSE, FALSE, TRUE, FALSE)
ExpectBlockMappingValue(m, ev) ==
  ExpectNode(Push(WriteInd(WriteIndent(m), <<58>>, TRUE, FALSE, TRUE, Tok(":")), "block_mapping_key"), ev, FALSE, FALSE, TRUE, FALSE)

\* emit(): self.event = self.events.pop(0); self.state()
Pop(m) == [m EXCEPT !.events = Tail(@), !.trail = {}]
Step(m) ==
  LET ev == m.events[1]
      p == Pop(m)
      r ==
      CASE m.st = "stream_start" -> ExpectStreamStart(p, ev)
        [] m.st = "nothing" -> ExpectNothing(p, ev)
        [] m.st = "first_document_start" -> ExpectDocumentStart(p, ev, TRUE)
        [] m.st = "document_start" -> ExpectDocumentStart(p, ev, FALSE)
        [] m.st = "document_end" -> ExpectDocumentEnd(p, ev)
        [] m.st = "document_root" -> ExpectDocumentRoot(p, ev)
        [] m.st = "first_flow_sequence_item" -> ExpectFlowSequenceItem(p, ev, TRUE)
        [] m.st = "flow_sequence_item" -> ExpectFlowSequenceItem(p, ev, FALSE)
        [] m.st = "first_flow_mapping_key" -> ExpectFlowMappingKey(p, ev, TRUE)
        [] m.st = "flow_mapping_key" -> ExpectFlowMappingKey(p, ev, FALSE)
        [] m.st = "flow_mapping_simple_value" -> ExpectFlowMappingSimpleValue(p, ev)
        [] m.st = "flow_mapping_value" -> ExpectFlowMappingValue(p, ev)
        [] m.st = "first_block_sequence_item" -> ExpectBlockSequenceItem(p, ev, TRUE)
        [] m.st = "block_sequence_item" -> ExpectBlockSequenceItem(p, ev, FALSE)
        [] m.st = "first_block_mapping_key" -> ExpectBlockMappingKey(p, ev, TRUE)
        [] m.st = "block_mapping_key" -> ExpectBlockMappingKey(p, ev, FALSE)
        [] m.st = "block_mapping_simple_value" -> ExpectBlockMappingSimpleValue(p, ev)
        [] m.st = "block_mapping_value" -> ExpectBlockMappingValue(p, ev)
  IN  Tr(r, m.st)
States == {"stream_start", "nothing", "first_document_start", "document_start", "document_end", "document_root",
           "first_flow_sequence_item", "flow_sequence_item", "first_flow_mapping_key", "flow_mapping_key",
           "flow_mapping_simple_value", "flow_mapping_value", "first_block_sequence_item", "block_sequence_item",
           "first_block_mapping_key", "block_mapping_key", "block_mapping_simple_value", "block_mapping_value"}
\* after "done" (StreamEnd processed) the machine keeps accepting events in state "nothing"
Running(m) == m.outcome \in {"run", "done"}
CanStep(m) == Running(m) /\ ~NeedMoreEvents(m.events)
=============================================================================
