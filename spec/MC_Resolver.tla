---------------------------- MODULE MC_Resolver ----------------------------
(***************************************************************************)
(* C08 design check and test-plan generator.                               *)
(*                                                                         *)
(* State-per-input enumeration: a state is one scalar text, built by       *)
(* appending one symbol per step.  The enumeration plan comes from the     *)
(* harness as JSON (environment variable C08_CFG):                         *)
(*    plans : sequence of plans; a plan is a sequence of slots; a slot is  *)
(*            a sequence of symbols; a symbol is a sequence of             *)
(*            one-character strings (possibly empty, or a macro symbol     *)
(*            such as  t r u e  or  2 0 0 1).                              *)
(* "all strings up to length n over alphabet A" is n slots that are all A; *)
(* a type-specific template has one slot per lexical component.  Every     *)
(* prefix is a state too.                                                  *)
(*                                                                         *)
(* For every text the state carries                                        *)
(*    h   = [cls, val, amb, shape]  H: TypeRepo!Classify / Value, and for   *)
(*          timestamps the spelling classes (TypeRepo!TimestampShape)      *)
(*    l   = [tag, val]  L: Resolver!Load(text, (True, False))              *)
(*    dev = how l relates to h                                             *)
(* and TLC checks L => H (LRefinesH), the unambiguity of the repository    *)
(* (Unambiguous), the index/order independence of resolution (IndexSound)  *)
(* and quoted => str (QuotedIsStr).  The dump is the table                 *)
(* (text, class, value) that the harness replays through the real code.    *)
(***************************************************************************)
EXTENDS Naturals, Integers, Sequences, FiniteSets, TLC, Json, IOUtils, Decimal

H == INSTANCE TypeRepo
L == INSTANCE Resolver

Cfg == JsonDeserialize(IOEnv.C08_CFG)
Plans == Cfg.plans

VARIABLES p, text, k, h, l, dev
vars == <<p, text, k, h, l, dev>>

Plain  == <<TRUE, FALSE>>      \* ScalarEvent.implicit of a plain scalar
Quoted == <<FALSE, TRUE>>      \* ... of a quoted or block scalar

\* the meaning of the text; for timestamps also its spelling classes (coverage accounting of the enumeration)
HRes(s) == LET m == H!Meaning(s) IN
           [cls |-> m.cls, val |-> m.val, amb |-> m.amb,
            shape |-> IF m.cls = "timestamp" /\ ~m.amb THEN <<H!TimestampShape(s)>> ELSE <<>>]
LRes(s) == L!Load(s, Plain)

TzAgree(htz, ltz) ==
  CASE htz[1] = "none" -> ltz = <<"none">>
    [] htz[1] = "utc"  -> ltz = <<"utc">>
    [] htz[1] = "off"  -> ltz = <<"offmin", (IF htz[2] = "-" THEN 0 - 1 ELSE 1) * (htz[3] * 60 + htz[4])>>

ValAgree(hv, lv) ==
  CASE hv[1] \in {"null", "bool", "int", "date", "str"} -> lv = hv
    [] hv[1] = "float" -> IF hv[2] = "num" THEN Len(lv) = 3 /\ lv[1] = "float" /\ lv[2] = "num" /\ lv[3] = hv[3]
                                           ELSE lv = hv
    [] hv[1] = "datetime" -> /\ lv[1] = "datetime" /\ SubSeq(lv, 2, 7) = SubSeq(hv, 2, 7)
                             /\ lv[8] = hv[8] /\ TzAgree(hv[9], lv[9])
    [] hv[1] \in {"merge", "value"} -> lv = <<"ConstructorError", hv[1]>>     \* SafeConstructor has no such constructor
    [] OTHER -> FALSE

Deviation(s, hr, lr) ==
  IF lr.tag # hr.cls
  THEN (IF s # <<>> /\ s[Len(s)] = "\n" /\ lr.tag = H!Classify(SubSeq(s, 1, Len(s) - 1))
        THEN <<"dollar-newline", hr.cls, lr.tag>>            \* Python's $ ; such a text is never a plain scalar
        ELSE <<"class", hr.cls, lr.tag>>)
  ELSE IF hr.val[1] = "undefined"
       THEN (IF L!IsCrash(lr.val) THEN <<"valueless-crash", hr.val[2], hr.val[3], lr.val[2]>>
             ELSE IF lr.val[1] = "ConstructorError" THEN <<"valueless-error", hr.val[2], hr.val[3]>>
             ELSE <<"valueless", hr.val[2], hr.val[3]>>)
  ELSE IF ValAgree(hr.val, lr.val) THEN <<"agree">> ELSE <<"value", hr.cls>>

Set(s) == {s[i] : i \in DOMAIN s}
Init == /\ p \in DOMAIN Plans /\ text = <<>> /\ k = 0
        /\ h = HRes(<<>>) /\ l = LRes(<<>>) /\ dev = Deviation(<<>>, HRes(<<>>), LRes(<<>>))
Extend == /\ k < Len(Plans[p])
          /\ \E sym \in Set(Plans[p][k + 1]) :
               LET t == text \o sym hr == HRes(t) lr == LRes(t) IN
               /\ p' = p /\ text' = t /\ k' = k + 1 /\ h' = hr /\ l' = lr /\ dev' = Deviation(t, hr, lr)
Next == Extend
Spec == Init /\ [][Next]_vars

\* L => H: the implementation-shaped model gives every text the class and value of the repository.  Where the
\* repository gives a text a type but no value (H: "undefined") the property only asks for a YAML error or a
\* value, never a foreign exception:
\*   valueless-error  the converter raises ConstructorError
\*   valueless        the converter returns something (H is silent about what)
\*   valueless-crash  a non-YAML exception (a finding; none in the model of the current tree)
\*   dollar-newline   resolve() on a text that ends in a line feed (Python's $; never a plain scalar)
LRefinesH == dev[1] \in {"agree", "valueless", "valueless-error", "dollar-newline"}
Unambiguous == ~h.amb                            \* = H!TypesDisjoint(text), computed once with the meaning
\* No recogniser is unreachable because of the index: a static fact about the regexps, for texts of any length
\* (what a regexp can match begins with a character it is registered under).  Exception, modelled as it is: the
\* null regexp also matches "\n" through Python's $, and "\n" is no index key; a plain scalar never ends in "\n".
ASSUME L!IndexComplete
\* The order of the list has no effect: at most one regexp of the candidate list matches, and it is what resolve() found.
IndexSound == LET ms == L!CandidatesMatching(text) IN
              /\ Cardinality(ms) <= 1
              /\ l.tag = (IF ms = {} THEN L!DEFAULT_SCALAR_TAG ELSE CHOOSE t \in ms : TRUE)
\* the exhaustive variant, every regexp tried on every text (configuration MC_ResolverAll.cfg, small plans)
IndexSoundAll == LET ms == L!AllMatching(text) IN
                 (text # <<>> /\ text[Len(text)] = "\n") \/
                 /\ Cardinality(ms) <= 1 /\ L!ResolveNoIndex(text) = l.tag
QuotedIsStr == L!Resolve(text, Quoted) = "str" /\ H!ClassifyStyled(text, FALSE) = "str"
=============================================================================
