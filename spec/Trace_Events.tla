---------------------------- MODULE Trace_Events ----------------------------
(***************************************************************************)
(* Judgement of event streams recorded from the real parsers (H of C09 for *)
(* events): grammar monitor, mark range / order / monotonicity, and - for  *)
(* traces that carry the line structure of their input - line and column   *)
(* obtained by counting line breaks up to the index.                       *)
(* One TLC run judges a whole batch: one initial state per trace.          *)
(*                                                                         *)
(* trace record:                                                           *)
(*   len      length of the input (characters, or abstract positions)      *)
(*   outcome  "ok" | "yamlerror" | "exception"                             *)
(*   events   << [k, s, e, sl, sc, el, ec] >>  kind, start/end index, and  *)
(*            start/end line, column                                       *)
(*   errmarks << [i, l, c] >> marks carried by the error                   *)
(*   exact    TRUE when line/column must equal Pos(input, index)           *)
(*   breaks   indices at which a line starts (first is 0), ascending       *)
(*   boms     indices of zero-width U+FEFF characters                      *)
(***************************************************************************)
EXTENDS Naturals, Sequences, FiniteSets, TLC, Json, IOUtils
G == INSTANCE EventGrammar

Traces == JsonDeserialize(IOEnv.TRACE_FILE)
VARIABLE tid

\* line l (0-based) is the one with breaks[l+1] <= pos < breaks[l+2]; breaks is strictly increasing and starts with 0, so this
\* l is unique and equals  Cardinality({j : breaks[j] <= pos}) - 1  (the count of line starts at or before pos) - checked, not counted
IsLineOf(t, pos, l) == /\ l >= 0 /\ l + 1 <= Len(t.breaks) /\ t.breaks[l + 1] <= pos
                       /\ (l + 2 <= Len(t.breaks) => pos < t.breaks[l + 2])
ColAt(t, pos, l)    == LET ls == t.breaks[l + 1]
                       IN  (pos - ls) - Cardinality({j \in DOMAIN t.boms : ls <= t.boms[j] /\ t.boms[j] < pos})
PosOk(t, i, l, c) == ~t.exact \/ (IsLineOf(t, i, l) /\ c = ColAt(t, i, l))

RECURSIVE Run(_, _, _, _)
Run(t, i, g, prev) ==
  IF i > Len(t.events) THEN [ok |-> TRUE, g |-> g, at |-> 0, why |-> "-"]
  ELSE LET e == t.events[i]
           g2 == G!MonStep(g, e.k)
       IN  IF g2 = G!Reject THEN [ok |-> FALSE, g |-> g2, at |-> i, why |-> "event grammar"]
           ELSE IF ~(0 <= e.s /\ e.s <= e.e /\ e.e <= t.len) THEN [ok |-> FALSE, g |-> g2, at |-> i, why |-> "mark range"]
           ELSE IF ~(prev <= e.s) THEN [ok |-> FALSE, g |-> g2, at |-> i, why |-> "marks move backwards"]
           ELSE IF ~(PosOk(t, e.s, e.sl, e.sc) /\ PosOk(t, e.e, e.el, e.ec)) THEN [ok |-> FALSE, g |-> g2, at |-> i, why |-> "line/column"]
           ELSE Run(t, i + 1, g2, IF e.e > prev THEN e.e ELSE prev)   \* "marks never move backwards": no event starts before an earlier one ended

Judge(t) ==
  LET r == Run(t, 1, G!MonInit, 0) IN
  IF ~r.ok THEN r
  ELSE IF t.outcome = "exception" THEN [ok |-> FALSE, g |-> r.g, at |-> Len(t.events), why |-> "non-YAML exception"]
  ELSE IF t.outcome = "ok" /\ r.g # <<"END">> THEN [ok |-> FALSE, g |-> r.g, at |-> Len(t.events), why |-> "incomplete stream"]
  ELSE IF \E j \in DOMAIN t.errmarks : ~(0 <= t.errmarks[j].i /\ t.errmarks[j].i <= t.len
                                          /\ PosOk(t, t.errmarks[j].i, t.errmarks[j].l, t.errmarks[j].c))
       THEN [ok |-> FALSE, g |-> r.g, at |-> Len(t.events), why |-> "error mark"]
  ELSE r

Init == tid \in 1 .. Len(Traces)
Next == FALSE /\ tid' = tid
Spec == Init /\ [][Next]_tid
Verdict == LET r == Judge(Traces[tid]) IN PrintT(<<"VERDICT", tid, r.ok, r.why, r.at>>)
=============================================================================
