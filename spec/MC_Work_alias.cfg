SPECIFICATION Spec
CONSTANTS
  Block = 4
  MaxKey = 4
  MaxFlow = 1
  MaxCol = 1
  MaxRun = 1
  MaxLen = 0
  Stream = FALSE
  Exact = FALSE
  Variant = "aliaswalk"
  Sym = {"a", "r", "w", "[", ",", "]", "s", "n"}
CONSTRAINT AliasBounded
INVARIANT StepCost
