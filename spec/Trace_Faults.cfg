SPECIFICATION Spec
INVARIANT Verdict
