SPECIFICATION Spec
INVARIANT Verdict
