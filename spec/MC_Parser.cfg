SPECIFICATION Spec
CONSTANTS
  MaxTokens = 7
  Tok = {"DY1", "DY2", "DT1", "DS", "DE", "BSS", "BMS", "BEND", "FSS", "FMS", "FSE", "FME", "BENTRY", "FENTRY", "KEY", "VALUE", "ALIAS", "ANCHOR", "TAG", "TAGH1", "SCALAR"}
  History = FALSE
INVARIANT NoCrash
INVARIANT Grammatical
INVARIANT CompleteAtEnd
INVARIANT MarksInRange
INVARIANT ErrorMarksInRange
PROPERTY MarksMonotone
