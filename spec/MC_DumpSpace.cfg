SPECIFICATION Spec
INVARIANT DumpReadsBack
