------------------------------ MODULE Scalars ------------------------------
(***************************************************************************)
(* L model, character level, of the scalar half of emitter.py and of the   *)
(* scanner routines that read scalars back (scanner.py).                   *)
(*                                                                         *)
(* Characters are code points (naturals), texts are sequences of code      *)
(* points; every literal character set of the code is written here as the  *)
(* same set of code points.  Python indices are 0-based: At(t,i) = t[i],   *)
(* Slice(t,a,b) = t[a:b].  `None` (ch is None at the end of the text) = -1. *)
(*                                                                         *)
(* Part 1  analyze_scalar, choose_scalar_style, determine_block_hints      *)
(* Part 2  the writer primitives and the five write_* methods              *)
(* Part 3  reader.forward/peek, scan_line_break, scan_block_scalar,        *)
(*         scan_flow_scalar, scan_plain, the first-character dispatch of   *)
(*         fetch_more_tokens                                               *)
(* Part 4  one round trip  Write ; follow-up text ; Scan                   *)
(*                                                                         *)
(* Repairs: the set Fix names candidate repairs that are modelled next to  *)
(* the code as it is ("D3" no fold inside a more-indented line of a folded *)
(* scalar, "D4" NEL is a special character, "D9" no fold between an escaped   *)
(* character and a following space).  Fix = {} is the pinned tree.        *)
(* Partial operations that would be a Python exception other than an       *)
(* emitter error are the writer outcome crash = TRUE.                      *)
(***************************************************************************)
EXTENDS Integers, Sequences, FiniteSets, TLC

CONSTANT Fix

None == -1
NUL == 0    TAB == 9    LF == 10    CR == 13    SP == 32    DQ == 34    HASH == 35   PCT == 37
SQ == 39    DASH == 45  DOT == 46   COLON == 58 QM == 63    BSL == 92   NEL == 133   NBSP == 160
LS == 8232  PS == 8233  BOM == 65279

EBrk  == {LF, NEL, LS, PS}                       \* '\n\x85  '
SBrk  == {CR, LF, NEL, LS, PS}                   \* '\r\n\x85  '
WsNul == {NUL, SP, TAB, CR, LF, NEL, LS, PS}     \* '\0 \t\r\n\x85  '
NulBrk == {NUL, CR, LF, NEL, LS, PS}             \* '\0\r\n\x85  '
FlowInd == {44, 63, 91, 93, 123, 125}            \* ',?[]{}'
LeadInd == {35, 44, 91, 93, 123, 125, 38, 42, 33, 124, 62, 39, 34, 37, 64, 96}   \* '#,[]{}&*!|>\'\"%@`'

At(t, i) == t[i + 1]
Slice(t, a, b) == SubSeq(t, a + 1, b)
Max(a, b) == IF a > b THEN a ELSE b
RECURSIVE Spaces(_)
Spaces(n) == IF n <= 0 THEN <<>> ELSE <<SP>> \o Spaces(n - 1)

(***************************************************************************)
(* Part 1: analysis                                                        *)
(***************************************************************************)
\* the "unicode_characters" branch of analyze_scalar (emitter.py:700-702)
UnicodeChar(c) == ((c = NEL /\ "D4" \notin Fix) \/ (160 <= c /\ c <= 55295) \/ (57344 <= c /\ c <= 65533)
                   \/ (65536 <= c /\ c < 1114111)) /\ c # BOM

F0 == [blockInd |-> FALSE, flowInd |-> FALSE, lineBreaks |-> FALSE, special |-> FALSE, leadSp |-> FALSE,
       leadBr |-> FALSE, trailSp |-> FALSE, trailBr |-> FALSE, brkSp |-> FALSE, spBrk |-> FALSE,
       prevSp |-> FALSE, prevBr |-> FALSE, precWs |-> TRUE, follWs |-> FALSE]

RECURSIVE AnLoop(_, _, _, _)
AnLoop(t, i, f, uni) ==                         \* the while loop of analyze_scalar, index = i
  IF i >= Len(t) THEN f
  ELSE LET ch == At(t, i)
           ind == IF i = 0
                  THEN [b |-> f.blockInd \/ ch \in LeadInd \/ (ch \in {QM, COLON} /\ f.follWs) \/ (ch = DASH /\ f.follWs),
                        w |-> f.flowInd \/ ch \in LeadInd \/ ch \in {QM, COLON} \/ (ch = DASH /\ f.follWs)]
                  ELSE [b |-> f.blockInd \/ (ch = COLON /\ f.follWs) \/ (ch = HASH /\ f.precWs),
                        w |-> f.flowInd \/ ch \in FlowInd \/ ch = COLON \/ (ch = HASH /\ f.precWs)]
           spec == f.special \/ (~(ch = LF \/ (32 <= ch /\ ch <= 126)) /\ (IF UnicodeChar(ch) THEN ~uni ELSE TRUE))
           last == (i = Len(t) - 1)
           g == [f EXCEPT !.blockInd = ind.b, !.flowInd = ind.w, !.lineBreaks = @ \/ ch \in EBrk, !.special = spec]
           h == IF ch = SP
                THEN [g EXCEPT !.leadSp = @ \/ i = 0, !.trailSp = @ \/ last, !.brkSp = @ \/ f.prevBr,
                               !.prevSp = TRUE, !.prevBr = FALSE]
                ELSE IF ch \in EBrk
                THEN [g EXCEPT !.leadBr = @ \/ i = 0, !.trailBr = @ \/ last, !.spBrk = @ \/ f.prevSp,
                               !.prevSp = FALSE, !.prevBr = TRUE]
                ELSE [g EXCEPT !.prevSp = FALSE, !.prevBr = FALSE]
       IN  AnLoop(t, i + 1,
                  [h EXCEPT !.precWs = ch \in WsNul,
                            !.follWs = (i + 2 >= Len(t)) \/ At(t, i + 2) \in WsNul], uni)

Analyze(t, uni) ==
  IF t = <<>> THEN [empty |-> TRUE, multiline |-> FALSE, flowPlain |-> FALSE, blockPlain |-> TRUE,
                    single |-> TRUE, double |-> TRUE, block |-> FALSE]
  ELSE LET docInd == Len(t) >= 3 /\ (SubSeq(t, 1, 3) = <<DASH, DASH, DASH>> \/ SubSeq(t, 1, 3) = <<DOT, DOT, DOT>>)
           f == AnLoop(t, 0, [F0 EXCEPT !.blockInd = docInd, !.flowInd = docInd,
                                       !.follWs = (Len(t) = 1) \/ At(t, 1) \in WsNul], uni)
           edge == f.leadSp \/ f.leadBr \/ f.trailSp \/ f.trailBr
           dq == f.spBrk \/ f.special
       IN  [empty |-> FALSE, multiline |-> f.lineBreaks,
            flowPlain  |-> ~edge /\ ~f.brkSp /\ ~dq /\ ~f.lineBreaks /\ ~f.flowInd,
            blockPlain |-> ~edge /\ ~f.brkSp /\ ~dq /\ ~f.lineBreaks /\ ~f.blockInd,
            single |-> ~f.brkSp /\ ~dq, double |-> TRUE, block |-> ~f.trailSp /\ ~dq]

\* choose_scalar_style; req in {"none","plain?",...}: the event's style attribute; impl0 = event.implicit[0]
ChooseStyle(an, req, impl0, flow, sk, canonical) ==
  IF req = "double" \/ canonical THEN "double"
  ELSE IF req = "none" /\ impl0 /\ ~(sk /\ (an.empty \/ an.multiline))
          /\ ((flow /\ an.flowPlain) \/ (~flow /\ an.blockPlain)) THEN "plain"
  ELSE IF req \in {"literal", "folded"} /\ ~flow /\ ~sk /\ an.block THEN req
  ELSE IF req \in {"none", "single"} /\ an.single /\ ~(sk /\ an.multiline) THEN "single"
  ELSE "double"

\* determine_block_hints: <<indentation digit?>> \o <<'-' | '+'>>?
BlockHints(t, bestIndent) ==
  IF t = <<>> THEN <<>>
  ELSE (IF t[1] \in {SP} \cup EBrk THEN <<48 + bestIndent>> ELSE <<>>) \o
       (IF t[Len(t)] \notin EBrk THEN <<DASH>>
        ELSE IF Len(t) = 1 \/ t[Len(t) - 1] \in EBrk THEN <<43>> ELSE <<>>)

(***************************************************************************)
(* Part 2: writers.  w = [out, col, ws, ind, open, crash, diag]            *)
(*   P = [indent, width, lb, uni, best]   (self.indent or 0, best_width,   *)
(*   best_line_break as a sequence, allow_unicode, best_indent)            *)
(* diag collects the names of the places where a repair in Fix would have  *)
(* acted differently (the model's own diagnosis of a defect site).         *)
(***************************************************************************)
W0(col, ws, ind) == [out |-> <<>>, col |-> col, ws |-> ws, ind |-> ind, open |-> FALSE, crash |-> FALSE, diag |-> {}]

WInd(w, data, need, wsAfter, indn) ==            \* write_indicator
  LET d == IF w.ws \/ ~need THEN data ELSE <<SP>> \o data
  IN  [w EXCEPT !.out = @ \o d, !.col = @ + Len(d), !.ws = wsAfter, !.ind = w.ind /\ indn, !.open = FALSE]
WBreak(w, data) == [w EXCEPT !.out = @ \o data, !.col = 0, !.ws = TRUE, !.ind = TRUE]      \* write_line_break
WIndentTo(w, indent, lb) ==                      \* write_indent with self.indent or 0 = indent
  LET w1 == IF ~w.ind \/ w.col > indent \/ (w.col = indent /\ ~w.ws) THEN WBreak(w, lb) ELSE w
  IN  IF w1.col < indent THEN [w1 EXCEPT !.out = @ \o Spaces(indent - w1.col), !.col = indent, !.ws = TRUE] ELSE w1
WIndent(w, P) == WIndentTo(w, P.indent, P.lb)
WData(w, data) == [w EXCEPT !.out = @ \o data, !.col = @ + Len(data)]
WDataNoCol(w, data) == [w EXCEPT !.out = @ \o data]          \* write_literal does not advance self.column
NoWs(w) == [w EXCEPT !.ws = FALSE, !.ind = FALSE]
Diag(w, d) == [w EXCEPT !.diag = @ \cup {d}]
Crashed(w) == [w EXCEPT !.crash = TRUE]

RECURSIVE WBreaks(_, _, _)
WBreaks(w, brs, P) ==                            \* for br in text[start:end]: write_line_break(...)
  IF brs = <<>> THEN w
  ELSE WBreaks(WBreak(w, IF Head(brs) = LF THEN P.lb ELSE <<Head(brs)>>), Tail(brs), P)

Mode(ch, old) == IF ch = None THEN old ELSE IF ch = SP THEN "sp" ELSE IF ch \in EBrk THEN "br" ELSE "-"
Ch(t, end) == IF end < Len(t) THEN At(t, end) ELSE None

(* ---------------------------- write_single_quoted ---------------------- *)
RECURSIVE WSingleLoop(_, _, _, _, _, _, _)
WSingleLoop(t, P, split, w, start, end, mode) ==
  IF end > Len(t) THEN w
  ELSE LET ch == Ch(t, end)
           r1 == CASE mode = "sp" ->
                        IF ch = None \/ ch # SP
                        THEN [w |-> IF start + 1 = end /\ w.col > P.width /\ split /\ start # 0 /\ end # Len(t)
                                    THEN WIndent(w, P) ELSE WData(w, Slice(t, start, end)), start |-> end]
                        ELSE [w |-> w, start |-> start]
                   [] mode = "br" ->
                        IF ch = None \/ ch \notin EBrk
                        THEN [w |-> WIndent(WBreaks(IF At(t, start) = LF THEN WBreak(w, P.lb) ELSE w,
                                                    Slice(t, start, end), P), P), start |-> end]
                        ELSE [w |-> w, start |-> start]
                   [] OTHER ->
                        IF (ch = None \/ ch \in {SP} \cup EBrk \/ ch = SQ) /\ start < end
                        THEN [w |-> WData(w, Slice(t, start, end)), start |-> end]
                        ELSE [w |-> w, start |-> start]
           r2 == IF ch = SQ THEN [w |-> WData(r1.w, <<SQ, SQ>>), start |-> end + 1] ELSE r1
       IN  WSingleLoop(t, P, split, r2.w, r2.start, end + 1, Mode(ch, mode))

WriteSingle(w, t, P, split) ==
  WInd(WSingleLoop(t, P, split, WInd(w, <<SQ>>, TRUE, FALSE, FALSE), 0, 0, "-"), <<SQ>>, FALSE, FALSE, FALSE)

(* ---------------------------- write_double_quoted ---------------------- *)
HexDigit(d) == IF d < 10 THEN 48 + d ELSE 55 + d
RECURSIVE Hex(_, _)
Hex(n, k) == IF k = 0 THEN <<>> ELSE Append(Hex(n \div 16, k - 1), HexDigit(n % 16))
EscNamed == (0 :> 48) @@ (7 :> 97) @@ (8 :> 98) @@ (9 :> 116) @@ (10 :> 110) @@ (11 :> 118) @@ (12 :> 102) @@
            (13 :> 114) @@ (27 :> 101) @@ (34 :> 34) @@ (92 :> 92) @@ (133 :> 78) @@ (160 :> 95) @@
            (8232 :> 76) @@ (8233 :> 80)
Escape(ch) == IF ch \in DOMAIN EscNamed THEN <<BSL, EscNamed[ch]>>
              ELSE IF ch <= 255 THEN <<BSL, 120>> \o Hex(ch, 2)
              ELSE IF ch <= 65535 THEN <<BSL, 117>> \o Hex(ch, 4)
              ELSE <<BSL, 85>> \o Hex(ch, 8)
DoubleRaw(ch, uni) == ch \notin {DQ, BSL, NEL, LS, PS, BOM}
                      /\ ((32 <= ch /\ ch <= 126) \/ (uni /\ ((160 <= ch /\ ch <= 55295) \/ (57344 <= ch /\ ch <= 65533))))

RECURSIVE WDoubleLoop(_, _, _, _, _, _, _)
WDoubleLoop(t, P, split, w, start, end, justFolded) ==
  IF end > Len(t) THEN w
  ELSE LET ch == Ch(t, end)
           r1 == IF ch = None \/ ~DoubleRaw(ch, P.uni)
                 THEN LET wa == IF start < end THEN WData(w, Slice(t, start, end)) ELSE w
                      IN  IF ch # None THEN [w |-> WData(wa, Escape(ch)), start |-> end + 1]
                          ELSE [w |-> wa, start |-> IF start < end THEN end ELSE start]
                 ELSE [w |-> w, start |-> start]
           \* repair "D9": right after an escaped character do not fold if the next character is a space (fold at that
           \* space in the next iteration instead, where the protecting backslash and the space stay together)
           foldc == 0 < end /\ end < Len(t) - 1
                    /\ (ch = SP \/ (r1.start >= end /\ ("D9" \in Fix => At(t, r1.start) # SP)))
                    /\ r1.w.col + (end - r1.start) > P.width /\ split
           \* the defect site: a second fold at the same place - nothing but the protecting backslash was written since the last one
           refold == foldc /\ justFolded /\ r1.start >= end
           fold == foldc
           r2 == IF fold
                 THEN LET st == IF r1.start < end THEN end ELSE r1.start
                          wb == NoWs(WIndent(WData(r1.w, Append(Slice(t, r1.start, end), BSL)), P))
                          wc == IF At(t, st) = SP THEN WData(wb, <<BSL>>) ELSE wb
                      IN  [w |-> IF refold /\ "D9" \notin Fix THEN Diag(wc, "double-refold") ELSE wc, start |-> st]
                 ELSE r1
       IN  WDoubleLoop(t, P, split, r2.w, r2.start, end + 1, fold /\ At(t, r2.start) = SP)

WriteDouble(w, t, P, split) ==
  WInd(WDoubleLoop(t, P, split, WInd(w, <<DQ>>, TRUE, FALSE, FALSE), 0, 0, FALSE), <<DQ>>, FALSE, FALSE, FALSE)

(* ---------------------------- write_folded ----------------------------- *)
RECURSIVE WFoldedLoop(_, _, _, _, _, _, _)
WFoldedLoop(t, P, w, start, end, mode, leadSp) ==
  IF end > Len(t) THEN w
  ELSE LET ch == Ch(t, end)
       IN  CASE mode = "br" ->
                  IF ch = None \/ ch \notin EBrk
                  THEN LET w1 == IF ~leadSp /\ ch # None /\ ch # SP /\ At(t, start) = LF THEN WBreak(w, P.lb) ELSE w
                           w2 == WBreaks(w1, Slice(t, start, end), P)
                           w3 == IF ch # None THEN WIndent(w2, P) ELSE w2
                       IN  WFoldedLoop(t, P, w3, end, end + 1, Mode(ch, mode), ch = SP)
                  ELSE WFoldedLoop(t, P, w, start, end + 1, Mode(ch, mode), leadSp)
             [] mode = "sp" ->
                  IF ch # SP
                  THEN LET foldc == start + 1 = end /\ w.col > P.width
                           inMore == foldc /\ leadSp
                           fold == foldc /\ ~(inMore /\ "D3" \in Fix)
                           w1 == IF fold THEN WIndent(w, P) ELSE WData(w, Slice(t, start, end))
                       IN  WFoldedLoop(t, P, IF inMore /\ "D3" \notin Fix THEN Diag(w1, "fold-in-more-indented-line") ELSE w1,
                                       end, end + 1, Mode(ch, mode), leadSp)
                  ELSE WFoldedLoop(t, P, w, start, end + 1, Mode(ch, mode), leadSp)
             [] OTHER ->
                  IF ch = None \/ ch \in {SP} \cup EBrk
                  THEN LET w1 == WData(w, Slice(t, start, end))
                       IN  WFoldedLoop(t, P, IF ch = None THEN WBreak(w1, P.lb) ELSE w1, end, end + 1, Mode(ch, mode), leadSp)
                  ELSE WFoldedLoop(t, P, w, start, end + 1, Mode(ch, mode), leadSp)

BlockHeader(w, t, P, indicator) ==
  LET hints == BlockHints(t, P.best)
      w1 == WInd(w, <<indicator>> \o hints, TRUE, FALSE, FALSE)
      w2 == IF hints # <<>> /\ hints[Len(hints)] = 43 THEN [w1 EXCEPT !.open = TRUE] ELSE w1
  IN  WBreak(w2, P.lb)
WriteFolded(w, t, P) == WFoldedLoop(t, P, BlockHeader(w, t, P, 62), 0, 0, "br", TRUE)

(* ---------------------------- write_literal ---------------------------- *)
RECURSIVE WLiteralLoop(_, _, _, _, _, _)
WLiteralLoop(t, P, w, start, end, brk) ==
  IF end > Len(t) THEN w
  ELSE LET ch == Ch(t, end)
           nb == IF ch = None THEN brk ELSE ch \in EBrk
       IN  IF brk
           THEN IF ch = None \/ ch \notin EBrk
                THEN LET w2 == WBreaks(w, Slice(t, start, end), P)
                     IN  WLiteralLoop(t, P, IF ch # None THEN WIndent(w2, P) ELSE w2, end, end + 1, nb)
                ELSE WLiteralLoop(t, P, w, start, end + 1, nb)
           ELSE IF ch = None \/ ch \in EBrk
                THEN LET w1 == WDataNoCol(w, Slice(t, start, end))
                     IN  WLiteralLoop(t, P, IF ch = None THEN WBreak(w1, P.lb) ELSE w1, end, end + 1, nb)
                ELSE WLiteralLoop(t, P, w, start, end + 1, nb)
WriteLiteral(w, t, P) == WLiteralLoop(t, P, BlockHeader(w, t, P, 124), 0, 0, TRUE)

(* ---------------------------- write_plain ------------------------------ *)
RECURSIVE WPlainLoop(_, _, _, _, _, _, _)
WPlainLoop(t, P, split, w, start, end, mode) ==
  IF end > Len(t) \/ w.crash THEN w
  ELSE LET ch == Ch(t, end)
       IN  CASE mode = "sp" ->
                  IF ch # SP
                  THEN LET w1 == IF start + 1 = end /\ w.col > P.width /\ split THEN NoWs(WIndent(w, P))
                                 ELSE WData(w, Slice(t, start, end))
                       IN  WPlainLoop(t, P, split, w1, end, end + 1, Mode(ch, mode))
                  ELSE WPlainLoop(t, P, split, w, start, end + 1, Mode(ch, mode))
             [] mode = "br" ->
                  IF ch = None THEN Crashed(w)           \* `None not in '\n...'` is a TypeError (emitter.py:1114)
                  ELSE IF ch \notin EBrk
                  THEN LET w1 == IF At(t, start) = LF THEN WBreak(w, P.lb) ELSE w
                           w2 == NoWs(WIndent(WBreaks(w1, Slice(t, start, end), P), P))
                       IN  WPlainLoop(t, P, split, w2, end, end + 1, Mode(ch, mode))
                  ELSE WPlainLoop(t, P, split, w, start, end + 1, Mode(ch, mode))
             [] OTHER ->
                  IF ch = None \/ ch \in {SP} \cup EBrk
                  THEN WPlainLoop(t, P, split, WData(w, Slice(t, start, end)), end, end + 1, Mode(ch, mode))
                  ELSE WPlainLoop(t, P, split, w, start, end + 1, Mode(ch, mode))

WritePlain(w, t, P, split, root) ==
  LET w0 == IF root THEN [w EXCEPT !.open = TRUE] ELSE w
  IN  IF t = <<>> THEN w0
      ELSE WPlainLoop(t, P, split, NoWs(IF ~w0.ws THEN WData(w0, <<SP>>) ELSE w0), 0, 0, "-")

\* process_scalar
WriteScalar(w, t, style, P, split, root) ==
  CASE style = "double"  -> WriteDouble(w, t, P, split)
    [] style = "single"  -> WriteSingle(w, t, P, split)
    [] style = "folded"  -> WriteFolded(w, t, P)
    [] style = "literal" -> WriteLiteral(w, t, P)
    [] OTHER             -> WritePlain(w, t, P, split, root)

(***************************************************************************)
(* Part 3: the reading side.  s = [pos, col]; the input ends with the      *)
(* reader's NUL sentinel (Peek past the end = NUL).                        *)
(***************************************************************************)
Peek(inp, s, k) == IF s.pos + k < Len(inp) THEN inp[s.pos + k + 1] ELSE NUL
Prefix(inp, s, n) == SubSeq(inp, s.pos + 1, IF s.pos + n <= Len(inp) THEN s.pos + n ELSE Len(inp))
RECURSIVE Fwd(_, _, _)
Fwd(inp, s, n) ==                                \* reader.forward(n)
  IF n = 0 THEN s
  ELSE LET ch == Peek(inp, s, 0)
       IN  Fwd(inp, [pos |-> s.pos + 1,
                     col |-> IF ch \in EBrk \/ (ch = CR /\ Peek(inp, s, 1) # LF) THEN 0
                             ELSE IF ch # BOM THEN s.col + 1 ELSE s.col], n - 1)
\* reader.check_printable (reader.py NON_PRINTABLE)
ReaderPrintable(c) == c \in {TAB, LF, CR, NEL} \/ (32 <= c /\ c <= 126) \/ (160 <= c /\ c <= 55295)
                      \/ (57344 <= c /\ c <= 65533) \/ (65536 <= c /\ c <= 1114111)

ScanLineBreak(inp, s) ==
  LET ch == Peek(inp, s, 0)
  IN  IF ch \in {CR, LF, NEL}
      THEN [br |-> <<LF>>, s |-> Fwd(inp, s, IF ch = CR /\ Peek(inp, s, 1) = LF THEN 2 ELSE 1)]
      ELSE IF ch \in {LS, PS} THEN [br |-> <<ch>>, s |-> Fwd(inp, s, 1)]
      ELSE [br |-> <<>>, s |-> s]

RECURSIVE SkipSp(_, _)
SkipSp(inp, s) == IF Peek(inp, s, 0) = SP THEN SkipSp(inp, Fwd(inp, s, 1)) ELSE s
RECURSIVE RunLen(_, _, _, _)
RunLen(inp, s, k, stop) == IF Peek(inp, s, k) \in stop THEN k ELSE RunLen(inp, s, k + 1, stop)
RECURSIVE RunIn(_, _, _, _)
RunIn(inp, s, k, set) == IF Peek(inp, s, k) \in set THEN RunIn(inp, s, k + 1, set) ELSE k

RECURSIVE ToNextToken(_, _)
ToNextToken(inp, s) ==                           \* scan_to_next_token (BOM at index 0 not needed here)
  LET s1 == SkipSp(inp, s)
      s2 == IF Peek(inp, s1, 0) = HASH THEN Fwd(inp, s1, RunLen(inp, s1, 0, NulBrk)) ELSE s1
      b == ScanLineBreak(inp, s2)
  IN  IF b.br # <<>> THEN ToNextToken(inp, b.s) ELSE s2

DocSep(inp, s) == (Prefix(inp, s, 3) = <<DASH, DASH, DASH>> \/ Prefix(inp, s, 3) = <<DOT, DOT, DOT>>)
                  /\ Peek(inp, s, 3) \in WsNul

ScanErr(s) == [ok |-> FALSE, val |-> <<>>, s |-> s, plain |-> FALSE]

(* ---------------------------- scan_block_scalar ------------------------ *)
Digits == 48 .. 57
BlockIndicators(inp, s) ==                       \* -> [err, chomp, inc, s]
  LET ch == Peek(inp, s, 0)
      r == IF ch \in {43, DASH}
           THEN LET s1 == Fwd(inp, s, 1)  c1 == Peek(inp, s1, 0)
                IN  IF c1 \in Digits THEN [err |-> c1 = 48, chomp |-> IF ch = 43 THEN "keep" ELSE "strip", inc |-> c1 - 48, s |-> Fwd(inp, s1, 1)]
                    ELSE [err |-> FALSE, chomp |-> IF ch = 43 THEN "keep" ELSE "strip", inc |-> 0, s |-> s1]
           ELSE IF ch \in Digits
           THEN LET s1 == Fwd(inp, s, 1)  c1 == Peek(inp, s1, 0)
                IN  IF c1 \in {43, DASH} THEN [err |-> ch = 48, chomp |-> IF c1 = 43 THEN "keep" ELSE "strip", inc |-> ch - 48, s |-> Fwd(inp, s1, 1)]
                    ELSE [err |-> ch = 48, chomp |-> "clip", inc |-> ch - 48, s |-> s1]
           ELSE [err |-> FALSE, chomp |-> "clip", inc |-> 0, s |-> s]
  IN  IF ~r.err /\ Peek(inp, r.s, 0) \notin {NUL, SP, CR, LF, NEL, LS, PS} THEN [r EXCEPT !.err = TRUE] ELSE r

IgnoredLine(inp, s) ==
  LET s1 == SkipSp(inp, s)
      s2 == IF Peek(inp, s1, 0) = HASH THEN Fwd(inp, s1, RunLen(inp, s1, 0, NulBrk)) ELSE s1
  IN  IF Peek(inp, s2, 0) \notin NulBrk THEN [err |-> TRUE, s |-> s2] ELSE [err |-> FALSE, s |-> ScanLineBreak(inp, s2).s]

RECURSIVE BlockIndentation(_, _, _, _)
BlockIndentation(inp, s, chunks, maxi) ==        \* scan_block_scalar_indentation
  LET ch == Peek(inp, s, 0)
  IN  IF ch \in {SP} \cup SBrk
      THEN IF ch # SP THEN LET b == ScanLineBreak(inp, s) IN BlockIndentation(inp, b.s, chunks \o b.br, maxi)
           ELSE LET s1 == Fwd(inp, s, 1) IN BlockIndentation(inp, s1, chunks, Max(maxi, s1.col))
      ELSE [breaks |-> chunks, maxi |-> maxi, s |-> s]

RECURSIVE SkipIndent(_, _, _)
SkipIndent(inp, s, indent) == IF s.col < indent /\ Peek(inp, s, 0) = SP THEN SkipIndent(inp, Fwd(inp, s, 1), indent) ELSE s
RECURSIVE BlockBreaksLoop(_, _, _, _)
BlockBreaksLoop(inp, s, indent, chunks) ==
  IF Peek(inp, s, 0) \in SBrk
  THEN LET b == ScanLineBreak(inp, s) IN BlockBreaksLoop(inp, SkipIndent(inp, b.s, indent), indent, chunks \o b.br)
  ELSE [breaks |-> chunks, maxi |-> 0, s |-> s]
BlockBreaks(inp, s, indent) == BlockBreaksLoop(inp, SkipIndent(inp, s, indent), indent, <<>>)   \* scan_block_scalar_breaks

RECURSIVE BlockBody(_, _, _, _, _, _, _)
BlockBody(inp, s, folded, indent, breaks, chunks, lbr) ==
  IF ~(s.col = indent /\ Peek(inp, s, 0) # NUL) THEN [s |-> s, chunks |-> chunks, lbr |-> lbr, breaks |-> breaks]
  ELSE LET lns == Peek(inp, s, 0) \notin {SP, TAB}
           n == RunLen(inp, s, 0, NulBrk)
           b == ScanLineBreak(inp, Fwd(inp, s, n))
           bb == BlockBreaks(inp, b.s, indent)
           c2 == chunks \o breaks \o Prefix(inp, s, n)
       IN  IF bb.s.col = indent /\ Peek(inp, bb.s, 0) # NUL
           THEN LET c3 == IF folded /\ b.br = <<LF>> /\ lns /\ Peek(inp, bb.s, 0) \notin {SP, TAB}
                          THEN (IF bb.breaks = <<>> THEN Append(c2, SP) ELSE c2)
                          ELSE c2 \o b.br
                IN  BlockBody(inp, bb.s, folded, indent, bb.breaks, c3, b.br)
           ELSE [s |-> bb.s, chunks |-> c2, lbr |-> b.br, breaks |-> bb.breaks]

ScanBlock(inp, s0, folded, pind) ==
  LET hd == BlockIndicators(inp, Fwd(inp, s0, 1))
  IN  IF hd.err THEN ScanErr(hd.s)
      ELSE LET ig == IgnoredLine(inp, hd.s)
           IN  IF ig.err THEN ScanErr(ig.s)
               ELSE LET minI == Max(pind + 1, 1)
                        a == IF hd.inc = 0 THEN BlockIndentation(inp, ig.s, <<>>, 0) ELSE BlockBreaks(inp, ig.s, minI + hd.inc - 1)
                        indent == IF hd.inc = 0 THEN Max(minI, a.maxi) ELSE minI + hd.inc - 1
                        r == BlockBody(inp, a.s, folded, indent, a.breaks, <<>>, <<>>)
                        v == r.chunks \o (IF hd.chomp # "strip" THEN r.lbr ELSE <<>>) \o (IF hd.chomp = "keep" THEN r.breaks ELSE <<>>)
                    IN  [ok |-> TRUE, val |-> v, s |-> r.s, plain |-> FALSE]

(* ---------------------------- scan_flow_scalar ------------------------- *)
UnEsc == (48 :> 0) @@ (97 :> 7) @@ (98 :> 8) @@ (116 :> 9) @@ (9 :> 9) @@ (110 :> 10) @@ (118 :> 11) @@ (102 :> 12) @@
         (114 :> 13) @@ (101 :> 27) @@ (32 :> 32) @@ (34 :> 34) @@ (92 :> 92) @@ (47 :> 47) @@ (78 :> 133) @@
         (95 :> 160) @@ (76 :> 8232) @@ (80 :> 8233)
EscCodes == (120 :> 2) @@ (117 :> 4) @@ (85 :> 8)
HexChars == (48 .. 57) \cup (65 .. 70) \cup (97 .. 102)
HexVal(c) == IF c <= 57 THEN c - 48 ELSE IF c <= 70 THEN c - 55 ELSE c - 87
RECURSIVE HexNum(_, _)
HexNum(ds, acc) == IF ds = <<>> THEN acc ELSE HexNum(Tail(ds), acc * 16 + HexVal(Head(ds)))

RECURSIVE FlowBreaks(_, _, _)
FlowBreaks(inp, s, chunks) ==                    \* scan_flow_scalar_breaks -> [err, chunks, s]
  IF DocSep(inp, s) THEN [err |-> TRUE, chunks |-> chunks, s |-> s]
  ELSE LET s1 == Fwd(inp, s, RunIn(inp, s, 0, {SP, TAB}))
       IN  IF Peek(inp, s1, 0) \in SBrk
           THEN LET b == ScanLineBreak(inp, s1) IN FlowBreaks(inp, b.s, chunks \o b.br)
           ELSE [err |-> FALSE, chunks |-> chunks, s |-> s1]

FlowStop == {SQ, DQ, BSL, NUL, SP, TAB, CR, LF, NEL, LS, PS}
RECURSIVE FlowNonSpaces(_, _, _, _)
FlowNonSpaces(inp, s, double, chunks) ==         \* scan_flow_scalar_non_spaces
  LET n == RunLen(inp, s, 0, FlowStop)
      c1 == chunks \o Prefix(inp, s, n)
      s1 == Fwd(inp, s, n)
      ch == Peek(inp, s1, 0)
  IN  IF ~double /\ ch = SQ /\ Peek(inp, s1, 1) = SQ THEN FlowNonSpaces(inp, Fwd(inp, s1, 2), double, Append(c1, SQ))
      ELSE IF (double /\ ch = SQ) \/ (~double /\ ch \in {DQ, BSL}) THEN FlowNonSpaces(inp, Fwd(inp, s1, 1), double, Append(c1, ch))
      ELSE IF double /\ ch = BSL
      THEN LET s2 == Fwd(inp, s1, 1)
               e == Peek(inp, s2, 0)
           IN  IF e \in DOMAIN UnEsc THEN FlowNonSpaces(inp, Fwd(inp, s2, 1), double, Append(c1, UnEsc[e]))
               ELSE IF e \in DOMAIN EscCodes
               THEN LET k == EscCodes[e]
                        s3 == Fwd(inp, s2, 1)
                    IN  IF \E j \in 0 .. k - 1 : Peek(inp, s3, j) \notin HexChars THEN [err |-> TRUE, chunks |-> c1, s |-> s3]
                        ELSE LET code == HexNum(Prefix(inp, s3, k), 0)
                             IN  IF code > 1114111 THEN [err |-> TRUE, chunks |-> c1, s |-> s3]       \* chr() out of range
                                 ELSE FlowNonSpaces(inp, Fwd(inp, s3, k), double, Append(c1, code))
               ELSE IF e \in SBrk
               THEN LET b == ScanLineBreak(inp, s2)
                        fb == FlowBreaks(inp, b.s, <<>>)
                    IN  IF fb.err THEN [err |-> TRUE, chunks |-> c1, s |-> fb.s]
                        ELSE FlowNonSpaces(inp, fb.s, double, c1 \o fb.chunks)
               ELSE [err |-> TRUE, chunks |-> c1, s |-> s2]
      ELSE [err |-> FALSE, chunks |-> c1, s |-> s1]

FlowSpaces(inp, s, double) ==                    \* scan_flow_scalar_spaces
  LET n == RunIn(inp, s, 0, {SP, TAB})
      s1 == Fwd(inp, s, n)
      ch == Peek(inp, s1, 0)
  IN  IF ch = NUL THEN [err |-> TRUE, chunks |-> <<>>, s |-> s1]
      ELSE IF ch \in SBrk
      THEN LET b == ScanLineBreak(inp, s1)
               fb == FlowBreaks(inp, b.s, <<>>)
           IN  IF fb.err THEN fb
               ELSE [err |-> FALSE, s |-> fb.s,
                     chunks |-> (IF b.br # <<LF>> THEN b.br ELSE IF fb.chunks = <<>> THEN <<SP>> ELSE <<>>) \o fb.chunks]
      ELSE [err |-> FALSE, chunks |-> Prefix(inp, s, n), s |-> s1]

RECURSIVE FlowLoop(_, _, _, _, _)
FlowLoop(inp, s, double, quote, chunks) ==
  IF Peek(inp, s, 0) = quote THEN [ok |-> TRUE, val |-> chunks, s |-> Fwd(inp, s, 1), plain |-> FALSE]
  ELSE LET sp == FlowSpaces(inp, s, double)
       IN  IF sp.err THEN ScanErr(sp.s)
           ELSE LET ns == FlowNonSpaces(inp, sp.s, double, chunks \o sp.chunks)
                IN  IF ns.err THEN ScanErr(ns.s) ELSE FlowLoop(inp, ns.s, double, quote, ns.chunks)
ScanFlow(inp, s0, double) ==
  LET ns == FlowNonSpaces(inp, Fwd(inp, s0, 1), double, <<>>)
  IN  IF ns.err THEN ScanErr(ns.s) ELSE FlowLoop(inp, ns.s, double, Peek(inp, s0, 0), ns.chunks)

(* ---------------------------- scan_plain ------------------------------- *)
ColonFollow == {44, 91, 93, 123, 125}            \* ',[]{}': after ':' these end a plain scalar in flow context
RECURSIVE PlainLen(_, _, _, _)
PlainLen(inp, s, k, flow) ==
  LET ch == Peek(inp, s, k)
  IN  IF ch \in WsNul \/ (ch = COLON /\ Peek(inp, s, k + 1) \in WsNul \cup (IF flow THEN ColonFollow ELSE {}))
         \/ (flow /\ ch \in FlowInd)
      THEN k ELSE PlainLen(inp, s, k + 1, flow)

RECURSIVE PlainSpBreaks(_, _, _)
PlainSpBreaks(inp, s, breaks) ==                 \* the inner while of scan_plain_spaces -> [none, breaks, s]
  LET ch == Peek(inp, s, 0)
  IN  IF ch \in {SP} \cup SBrk
      THEN IF ch = SP THEN PlainSpBreaks(inp, Fwd(inp, s, 1), breaks)
           ELSE LET b == ScanLineBreak(inp, s)
                IN  IF DocSep(inp, b.s) THEN [none |-> TRUE, breaks |-> breaks, s |-> b.s]
                    ELSE PlainSpBreaks(inp, b.s, breaks \o b.br)
      ELSE [none |-> FALSE, breaks |-> breaks, s |-> s]

PlainSpaces(inp, s) ==                           \* scan_plain_spaces -> [none, chunks, s]
  LET n == RunIn(inp, s, 0, {SP})
      s1 == Fwd(inp, s, n)
      ch == Peek(inp, s1, 0)
  IN  IF ch \in SBrk
      THEN LET b == ScanLineBreak(inp, s1)
           IN  IF DocSep(inp, b.s) THEN [none |-> TRUE, chunks |-> <<>>, s |-> b.s]
               ELSE LET r == PlainSpBreaks(inp, b.s, <<>>)
                    IN  IF r.none THEN [none |-> TRUE, chunks |-> <<>>, s |-> r.s]
                        ELSE [none |-> FALSE, s |-> r.s,
                              chunks |-> (IF b.br # <<LF>> THEN b.br ELSE IF r.breaks = <<>> THEN <<SP>> ELSE <<>>) \o r.breaks]
      ELSE [none |-> FALSE, chunks |-> Prefix(inp, s, n), s |-> s1]

RECURSIVE PlainLoop(_, _, _, _, _, _)
PlainLoop(inp, s, flow, indent, chunks, spaces) ==
  IF Peek(inp, s, 0) = HASH THEN [ok |-> TRUE, val |-> chunks, s |-> s, plain |-> TRUE]
  ELSE LET n == PlainLen(inp, s, 0, flow)
       IN  IF n = 0 THEN [ok |-> TRUE, val |-> chunks, s |-> s, plain |-> TRUE]
           ELSE LET c1 == chunks \o spaces \o Prefix(inp, s, n)
                    sp == PlainSpaces(inp, Fwd(inp, s, n))
                IN  IF sp.none \/ sp.chunks = <<>> \/ Peek(inp, sp.s, 0) = HASH \/ (~flow /\ sp.s.col < indent)
                    THEN [ok |-> TRUE, val |-> c1, s |-> sp.s, plain |-> TRUE]
                    ELSE PlainLoop(inp, sp.s, flow, indent, c1, sp.chunks)
ScanPlain(inp, s0, flow, pind) == PlainLoop(inp, s0, flow, pind + 1, <<>>, <<>>)

(* ---------------------------- fetch_more_tokens (dispatch) ------------- *)
PlainStartExcl == WsNul \cup {DASH, QM, COLON, 44, 91, 93, 123, 125, HASH, 38, 42, 33, 124, 62, SQ, DQ, PCT, 64, 96}
TokenKind(inp, s, flow) ==
  LET ch == Peek(inp, s, 0)
      nxWs == Peek(inp, s, 1) \in WsNul
  IN  IF ch = NUL THEN "stream-end"
      ELSE IF ch = PCT /\ s.col = 0 THEN "directive"
      ELSE IF ch = DASH /\ s.col = 0 /\ Prefix(inp, s, 3) = <<DASH, DASH, DASH>> /\ Peek(inp, s, 3) \in WsNul THEN "document-start"
      ELSE IF ch = DOT /\ s.col = 0 /\ Prefix(inp, s, 3) = <<DOT, DOT, DOT>> /\ Peek(inp, s, 3) \in WsNul THEN "document-end"
      ELSE IF ch \in {91, 93, 123, 125, 44} THEN "flow-indicator"
      ELSE IF ch = DASH /\ nxWs THEN "block-entry"
      ELSE IF ch = QM /\ (flow \/ nxWs) THEN "key"
      ELSE IF ch = COLON /\ (flow \/ nxWs) THEN "value"
      ELSE IF ch = 42 THEN "alias"
      ELSE IF ch = 38 THEN "anchor"
      ELSE IF ch = 33 THEN "tag"
      ELSE IF ch = 124 /\ ~flow THEN "literal"
      ELSE IF ch = 62 /\ ~flow THEN "folded"
      ELSE IF ch = SQ THEN "single"
      ELSE IF ch = DQ THEN "double"
      ELSE IF ch \notin PlainStartExcl \/ (~nxWs /\ (ch = DASH \/ (~flow /\ ch \in {QM, COLON}))) THEN "plain"
      ELSE "error"

(***************************************************************************)
(* The characters that either side treats specially at some position -     *)
(* the union of the literal sets above, per side and position class.  The  *)
(* bounded instances take their alphabet from here (MC_Scalars.IndMax), so *)
(* that every such character is a symbol of its own in the first, an inner *)
(* and the last position of a text in every context: the emitter's and the *)
(* scanner's sets have to agree there, and a change to one literal set on  *)
(* one side only is a different behaviour inside the explored space.       *)
(* (The block scalar header characters + - 1..9 are special only after the *)
(* | or > the emitter itself writes; no character of a text gets there.)   *)
(***************************************************************************)
AnFirstInd == LeadInd \cup {QM, COLON, DASH}     \* analyze_scalar, index = 0
AnInnerInd == FlowInd \cup {COLON, HASH}         \* analyze_scalar, index > 0
AnMarkInd  == {DASH, DOT}                        \* analyze_scalar: text.startswith('---') / ('...')
WrQuoteInd == {SQ, DQ, BSL}                      \* write_single_quoted / write_double_quoted
ScFirstInd == PlainStartExcl \ WsNul             \* fetch_more_tokens / check_plain, check_key, check_value, check_block_entry
ScInnerInd == FlowInd \cup ColonFollow \cup {COLON, HASH}    \* scan_plain
ScMarkInd  == {DASH, DOT, PCT}                   \* check_document_start / check_document_end / check_directive
ScQuoteInd == {SQ, DQ, BSL}                      \* scan_flow_scalar_non_spaces
Indicators == AnFirstInd \cup AnInnerInd \cup AnMarkInd \cup WrQuoteInd
              \cup ScFirstInd \cup ScInnerInd \cup ScMarkInd \cup ScQuoteInd

\* the next token at s, when it is a scalar: value and the reader state after it
ScanScalarToken(inp, s, flow, pind) ==
  LET k == TokenKind(inp, s, flow)
  IN  CASE k = "literal" -> [ScanBlock(inp, s, FALSE, pind) EXCEPT !.plain = FALSE] @@ [kind |-> k]
        [] k = "folded"  -> ScanBlock(inp, s, TRUE, pind) @@ [kind |-> k]
        [] k = "single"  -> ScanFlow(inp, s, FALSE) @@ [kind |-> k]
        [] k = "double"  -> ScanFlow(inp, s, TRUE) @@ [kind |-> k]
        [] k = "plain"   -> ScanPlain(inp, s, flow, pind) @@ [kind |-> k]
        [] OTHER         -> ScanErr(s) @@ [kind |-> k]

(***************************************************************************)
(* Part 4: one round trip.  cx = [c0, ws0, indent, pind, flow, sk, root,   *)
(* fol]: column and whitespace flag when the scalar is processed,          *)
(* self.indent during process_scalar, the scanner's self.indent, context   *)
(* flags, and what the emitter writes next:                                *)
(*   "sib"   write_indent to the parent indent, next entry                 *)
(*   "eof"   document end (write_indent at indent 0), end of the stream    *)
(*   "dend"  document end, then `...`                                      *)
(*   "dnext" document end, then `---` of the next document                 *)
(*   "comma" `,` next flow entry and `]`;  "close" `]`                     *)
(*   "value" `:` and a value (the scalar is a simple key)                  *)
(***************************************************************************)
Follow(w, cx, P) ==                              \* -> [w (writer before the follow token), tail (follow token text)]
  LET X == 120
      pI == IF cx.pind < 0 THEN 0 ELSE cx.pind
  IN  CASE cx.fol = "sib"   -> [w |-> WIndentTo(w, pI, P.lb), tail |-> <<X>> \o P.lb]
        [] cx.fol = "eof"   -> [w |-> WIndentTo(w, 0, P.lb), tail |-> <<>>]
        [] cx.fol = "dend"  -> [w |-> WIndentTo(w, 0, P.lb), tail |-> <<DOT, DOT, DOT>> \o P.lb]
        [] cx.fol = "dnext" -> [w |-> WIndentTo(WIndentTo(w, 0, P.lb), 0, P.lb), tail |-> <<DASH, DASH, DASH, SP, X>> \o P.lb]
        [] cx.fol = "comma" -> [w |-> w, tail |-> <<44, SP, X, 93>> \o P.lb]
        [] cx.fol = "close" -> [w |-> w, tail |-> <<93>> \o P.lb]
        [] cx.fol = "value" -> [w |-> w, tail |-> <<COLON, SP, X>> \o (IF cx.flow THEN <<125>> ELSE <<>>) \o P.lb]

RoundTrip(t, style, cx, P) ==
  LET w == WriteScalar(W0(cx.c0, cx.ws0, TRUE), t, style, P, ~cx.sk, cx.root)
      f == Follow(w, cx, P)
      inp == f.w.out \o f.tail
      s0 == SkipSp(inp, [pos |-> 0, col |-> cx.c0])
      printable == \A i \in 1 .. Len(inp) : ReaderPrintable(inp[i])
      \* an empty plain scalar writes nothing: the parser supplies the empty scalar itself
      tok == IF style = "plain" /\ t = <<>> THEN [ok |-> TRUE, val |-> <<>>, s |-> s0, plain |-> TRUE, kind |-> "plain"]
             ELSE ScanScalarToken(inp, s0, cx.flow, cx.pind)
      s1 == ToNextToken(inp, tok.s)
  IN  [out |-> w.out, open |-> w.open, crash |-> w.crash, diag |-> w.diag,
       val |-> tok.val, kind |-> tok.kind,
       ok |-> ~w.crash /\ printable /\ tok.ok /\ tok.val = t
              /\ s1.pos = Len(f.w.out) /\ s1.col = f.w.col]
=============================================================================
