--------------------------- MODULE Trace_Backends ---------------------------
(***************************************************************************)
(* H of C06 (H_BackendEq): the LibYAML back-end is a drop-in replacement.  *)
(*                                                                         *)
(*   "For every document that either back-end's dumper can produce and     *)
(*    every document of the portable YAML 1.1 subset, the C loaders and    *)
(*    the Python loaders produce the same events, the same node graphs and *)
(*    the same Python objects, and report errors of the same class on the  *)
(*    same malformed input class (undefined alias, duplicate anchor,       *)
(*    unknown tag, second document in a single-document load)."            *)
(*                                                                         *)
(* One trace = one text.  record:                                          *)
(*   dom     TRUE iff the text is a word of the Scanner/Parser             *)
(*           specification over the portable alphabet (decided by TLC with *)
(*           LoadPipe.tla, not by either implementation)                   *)
(*   dumper  TRUE iff the text was written by one of the two dumpers       *)
(*   plan    << delivery names >> the deliveries of the text that the      *)
(*           specification of the delivery dimension (StreamPlace.tla:     *)
(*           form x read limit; "str" = the text itself) asks for and the  *)
(*           form can carry                                                *)
(*   cases   << [name, dels, py, c] >> one per projection, loader pair and *)
(*           delivery (events / nodes / objects of load_all / single-      *)
(*           document load x Base / Safe / Full / Unsafe / default loader  *)
(*           pair for "str"; events (Base) and objects (Safe) for every    *)
(*           other delivery); cases with identical observations are merged *)
(*           (dels = the deliveries the merged case stands for);           *)
(*           py, c = [o |-> "ok" | "err", cls |-> class name of the error, *)
(*                    v |-> the projection]                                *)
(* A document is the same document in whatever form it reaches a loader,   *)
(* and both back-ends accept every form (str, bytes in UTF-8 / UTF-16 with *)
(* a byte order mark, text and binary streams whose read(n) may grant      *)
(* fewer than n units): H compares the two back-ends within each delivery. *)
(* (That one back-end gives the same result for all deliveries is C07.)    *)
(* Projections (harness/drivers/backends.py) contain what the repository's *)
(* own comparison of the two parsers looks at - event class, anchor, tag,  *)
(* implicit, value, explicit, version, tags - and for nodes / objects the  *)
(* graph as a heap in first-visit order (tag or type, scalar digest,       *)
(* children by heap index, so that sharing and cycles are part of it).     *)
(* Not part of "the same": marks, scalar and collection styles (DESIGN     *)
(* 5/C06), error messages.                                                 *)
(*                                                                         *)
(* The four named malformed situations need no clause of their own: they   *)
(* are composer / constructor errors on texts that are syntactically in    *)
(* the domain, and "same outcome, same error class" is required of every   *)
(* case of such a text.  Outside the domain nothing is required.           *)
(***************************************************************************)
EXTENDS Naturals, Sequences, FiniteSets, TLC, Json, IOUtils

Traces == JsonDeserialize(IOEnv.TRACE_FILE)
VARIABLE tid

InDomain(t) == t.dom \/ t.dumper

CaseWhy(x) == IF x.py.o # x.c.o THEN "outcome differs"
              ELSE IF x.py.o = "ok" /\ x.py.v # x.c.v THEN "projection differs"
              ELSE IF x.py.o # "ok" /\ x.py.cls # x.c.cls THEN "error class differs"
              ELSE "-"

BadCases(t) == {i \in DOMAIN t.cases : CaseWhy(t.cases[i]) # "-"}

H_BackendEq(t) == InDomain(t) => BadCases(t) = {}

\* no vacuity: every planned delivery was observed (otherwise the run is broken, not the property)
Delivered(t) == UNION {{t.cases[i].dels[k] : k \in DOMAIN t.cases[i].dels} : i \in DOMAIN t.cases}
PlanMet(t) == \A j \in DOMAIN t.plan : t.plan[j] \in Delivered(t)

\* one VERDICT line per trace, and one BAD line per case that breaks H (so that every broken case is reported, not only the first)
Report(t) == /\ PlanMet(t) \/ PrintT(<<"UNMET", tid>>)
             /\ PrintT(<<"VERDICT", tid, H_BackendEq(t), "-", 0>>)
             /\ H_BackendEq(t) \/ \A i \in BadCases(t) : PrintT(<<"BAD", tid, i, CaseWhy(t.cases[i])>>)

Init == tid \in 1 .. Len(Traces)
Next == FALSE /\ tid' = tid
Spec == Init /\ [][Next]_tid
Verdict == Report(Traces[tid])
=============================================================================
