------------------------------ MODULE DocFeed ------------------------------
(***************************************************************************)
(* How the documents of one dump_all() / one Dumper reach the representer, *)
(* and what its per-document bookkeeping must guarantee (C12: document j   *)
(* that comes back equals document j AS IT WAS HANDED OVER).               *)
(*                                                                         *)
(* L (representer.py:26-45): represent_data caches the node of every       *)
(* aliasable object in represented_objects under id(obj) and keeps the     *)
(* object alive in object_keeper, so that an id cannot be reused while its *)
(* cache entry exists; represent() empties both after every document.      *)
(* Environment: objects live in a heap of identities; the producer hands   *)
(* over either a freshly built value (and drops its reference to the       *)
(* previous one: a generator of documents, or temporaries built by a       *)
(* representer) or the same object again, possibly modified in between.    *)
(* An object referenced by nobody is freed and its identity may be given   *)
(* to the next object that is built.                                       *)
(*                                                                         *)
(* H: the content written for document j is the content the object had     *)
(* when it was handed over.                                                *)
(* ResetCache / ResetKeeper = FALSE are the negative controls: without the *)
(* cache reset TLC finds "fresh value, earlier one freed, identity reused" *)
(* (needs ResetKeeper) and "same object modified and handed over again";   *)
(* these two counterexamples are the delivery modes the harness replays.   *)
(***************************************************************************)
EXTENDS Naturals, Sequences, FiniteSets
CONSTANTS Ids, Contents, MaxDocs, ResetCache, ResetKeeper
VARIABLES heap,      \* identity -> content, "free" when unused
          held,      \* identities the producer still references
          cache,     \* represented_objects: set of <<identity, content of the cached node>>
          keeper,    \* object_keeper
          docs       \* <<[given, written, mode]>>
vars == <<heap, held, cache, keeper, docs>>

Init == heap = [i \in Ids |-> "free"] /\ held = {} /\ cache = {} /\ keeper = {} /\ docs = <<>>

Cached(i) == {p \in cache : p[1] = i}
\* represent(obj i): the node written, and the bookkeeping after the document
Represent(i, h, hd, mode) ==
  LET written == IF Cached(i) # {} THEN (CHOOSE p \in Cached(i) : TRUE)[2] ELSE h[i]
      cache1 == IF Cached(i) # {} THEN cache ELSE cache \cup {<<i, h[i]>>}
      keeper1 == IF Cached(i) # {} THEN keeper ELSE keeper \cup {i}
      cache2 == IF ResetCache THEN {} ELSE cache1
      keeper2 == IF ResetKeeper THEN {} ELSE keeper1
      \* garbage collection: what neither the producer nor the keeper references is freed
      h2 == [j \in Ids |-> IF j \in hd \cup keeper2 THEN h[j] ELSE "free"]
  IN  /\ cache' = cache2 /\ keeper' = keeper2 /\ heap' = h2 /\ held' = hd
      /\ docs' = Append(docs, [given |-> h[i], written |-> written, mode |-> mode])

\* a freshly built value; the producer drops what it held before
Fresh == \E i \in Ids, c \in Contents :
           /\ heap[i] = "free"
           /\ Represent(i, [heap EXCEPT ![i] = c], {i}, "fresh")
\* the same object again, unchanged or modified in between
Again == \E i \in held, c \in Contents : Represent(i, [heap EXCEPT ![i] = c], held, "again")

Next == Len(docs) < MaxDocs /\ (Fresh \/ Again)
Spec == Init /\ [][Next]_vars

\* H_DocBoundaries (2), list level: every document shows the value as it was handed over
EachDocumentAsHandedOver == \A j \in DOMAIN docs : docs[j].written = docs[j].given
\* the design reason: a cache entry never outlives the object it was made from
CacheSound == \A p \in cache : heap[p[1]] = p[2]
=============================================================================
