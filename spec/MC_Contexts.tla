---------------------------- MODULE MC_Contexts ----------------------------
(***************************************************************************)
(* C08, position and context independence: "an untagged plain scalar is    *)
(* given the type the repository assigns to its text ... quoted or block   *)
(* scalars are always strings" holds for every OCCURRENCE of a scalar, in  *)
(* whatever position of whatever document it stands, whatever stood        *)
(* before it.                                                              *)
(*                                                                         *)
(* A state is one YAML stream in the abstract: a sequence of occurrences   *)
(* of texts from a small pool (JSON from the harness, C08_CFG: pool of     *)
(* records [t |-> <<text1, text2>>, n |-> max. occurrences]), each         *)
(* occurrence with                                                         *)
(*    w     which text of the pair                                         *)
(*    form  "plain" | "single" | "double" | "literal"                      *)
(*    role  "item" (sequence item) | "key" | "val" (of a mapping)          *)
(*    link  "same" (continues the collection of the previous occurrence    *)
(*          when that is a mapping and this is a key / value), "new" (a    *)
(*          new collection in the same document), "doc" (a new document)   *)
(* plus the stream-level choice flow / block.  The harness prints the      *)
(* stream, loads it with the real loaders and compares every occurrence    *)
(* (node tag and constructed object) with exp[i]:                          *)
(*    H : exp[i] = TypeRepo!Meaning of the text if the form is plain,      *)
(*        str otherwise - a function of the occurrence alone;              *)
(*    L : Composer.compose_scalar_node hands event.implicit to resolve():  *)
(*        Resolver!Load(text, implicit(form)).                             *)
(* PositionIndependent: L = H for every occurrence of every stream.        *)
(***************************************************************************)
EXTENDS Naturals, Integers, Sequences, FiniteSets, TLC, Json, IOUtils, Decimal

H == INSTANCE TypeRepo
L == INSTANCE Resolver

Cfg == JsonDeserialize(IOEnv.C08_CFG)
Pool == Cfg.pool            \* sequence of [t |-> <<text1, text2>>, n |-> bound on the occurrences]

Forms == {"plain", "single", "double", "literal"}
Roles == {"item", "key", "val"}
Links == {"same", "new", "doc"}

VARIABLES pair, flow, occ, exp, lres
vars == <<pair, flow, occ, exp, lres>>

Implicit(form) == IF form = "plain" THEN <<TRUE, FALSE>> ELSE <<FALSE, TRUE>>
HOcc(text, form) == LET m == H!Meaning(text) IN
                    IF form = "plain" THEN [cls |-> m.cls, val |-> m.val] ELSE [cls |-> "str", val |-> <<"str">>]
LOcc(text, form) == L!Load(text, Implicit(form))

Init == /\ pair \in DOMAIN Pool /\ flow \in BOOLEAN
        /\ occ = <<>> /\ exp = <<>> /\ lres = <<>>
AddOccurrence ==
  /\ Len(occ) < Pool[pair].n
  /\ \E w \in {1, 2}, form \in (IF flow THEN Forms \ {"literal"} ELSE Forms), role \in Roles,
        link \in (IF occ = <<>> THEN {"doc"} ELSE Links) :
       LET text == Pool[pair].t[w] IN
       /\ occ' = Append(occ, [w |-> w, form |-> form, role |-> role, link |-> link])
       /\ exp' = Append(exp, HOcc(text, form))
       /\ lres' = Append(lres, LOcc(text, form))
  /\ UNCHANGED <<pair, flow>>
Next == AddOccurrence
Spec == Init /\ [][Next]_vars

PositionIndependent ==
  \A i \in DOMAIN occ : /\ lres[i].tag = exp[i].cls
                        /\ (exp[i].cls = "str" => lres[i].val = <<"str">>)
                        /\ (exp[i].val[1] # "undefined" => ~L!IsCrash(lres[i].val))
=============================================================================
