SPECIFICATION Spec
CONSTANTS
  MaxDepth = 4
  MaxScalar = 3
  Variant = "code"
  MaxEvents = 0
INVARIANT EventQueueBound
INVARIANT StepCost
INVARIANT Progress
INVARIANT Drained
