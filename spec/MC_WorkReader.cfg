SPECIFICATION Spec
CONSTANTS
  Block = 4
  Look = 5
  Variant = "code"
  MaxBuf = 1000
INVARIANT BufferBound
INVARIANT CallCost
INVARIANT Amortised
