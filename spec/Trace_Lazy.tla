----------------------------- MODULE Trace_Lazy -----------------------------
(***************************************************************************)
(* Judgement of laziness observations recorded from the real code (C18,    *)
(* code -> spec) with the operators of Lazy.tla (H).  One TLC run judges a *)
(* whole batch: one initial state per trace.                               *)
(*                                                                         *)
(* A trace is ONE iteration of yaml.scan / parse / compose_all / load_all  *)
(* of one back-end over an instrumented stream:                            *)
(*   block    the read size the library asks for (observed: the largest    *)
(*            argument of read(n) in the log)                              *)
(*   ends     end_k for every document of the stream, in units of the      *)
(*            stream (offset at which the token that terminates it starts) *)
(*   yields   << [k, req] >> in order: document k delivered when req units  *)
(*            had been handed out by the stream (instrumented stream), or   *)
(*            when the descriptor of a real file stood at req (bytes)       *)
(*   slack    the file object's own read-ahead, measured (0 otherwise)      *)
(*   atcall   units requested by the call itself, before the first next()   *)
(*   built    loader objects constructed during the iteration               *)
(*   outcome  "done" | "raised" | "abandoned" | "exception"                *)
(*   bad      [kind, doc, at]: the malformed document of the stream        *)
(*            ("-" none; "reader": offending unit at offset `at`;          *)
(*            "other": scanner / parser / composer / constructor error in  *)
(*            document doc)                                                *)
(*   disposals, readsAfter   after the consumer closed the generator:      *)
(*            dispose() calls seen, read() calls seen afterwards           *)
(*   alive    what survived of "loader" / "stream" (weak references) once  *)
(*            the generator had been closed and dropped, with the cyclic   *)
(*            garbage collector disabled: the EFFECT of releasing          *)
(*   abandons << [at, built, disposals, readsAfter, alive] >>: repetitions  *)
(*            of the same iteration that were abandoned after `at` items   *)
(*            (every abandonment point); judged by the release clauses     *)
(*   judge    "all" | "release": a stream whose document ends are not      *)
(*            known to the harness (corpus file) is judged for release     *)
(*            only                                                         *)
(***************************************************************************)
EXTENDS Naturals, Sequences, FiniteSets, TLC, Json, IOUtils
HL == INSTANCE Lazy

Traces == JsonDeserialize(IOEnv.TRACE_FILE)
VARIABLE tid

Ok == [ok |-> TRUE, why |-> "-", at |-> 0]
Bad(w, a) == [ok |-> FALSE, why |-> w, at |-> a]
Over(req, end) == IF req > end THEN req - end ELSE 0
Delivered(t) == Len(t.yields)

Min(S) == CHOOSE j \in S : \A i \in S : j <= i
\* every abandoned repetition: disposed, never read again, nothing left of loader and stream
JudgeRelease(t) ==
  LET undisposed == {j \in DOMAIN t.abandons : ~HL!ReleasedAll(t.abandons[j].built, t.abandons[j].disposals, t.abandons[j].readsAfter)}
      left == {j \in DOMAIN t.abandons : ~HL!NothingLeft({t.abandons[j].alive[i] : i \in DOMAIN t.abandons[j].alive})}
  IN  IF undisposed # {} THEN Bad("loader not disposed on abandon", t.abandons[Min(undisposed)].at)
      ELSE IF left # {} THEN Bad("loader not released on abandon", t.abandons[Min(left)].at)
      ELSE Ok

JudgeAll(t) ==
  LET n == Len(t.ends)
      late == {j \in DOMAIN t.yields : t.yields[j].k # j \/ j > n \/ ~HL!Within(Over(HL!Charged(t.yields[j].req, t.slack), t.ends[j]), t.block)}
  IN
  IF \E j \in DOMAIN t.yields : t.yields[j].k # j \/ j > n THEN Bad("documents out of order", 0)
  \* k = 0: what the call itself requested, before the first item was asked for, is bounded like everything else
  ELSE IF ~HL!Within(HL!Charged(t.atcall, t.slack), t.block) THEN Bad("requested more than two blocks at call", 0)
  ELSE IF late # {} THEN Bad("requested more than two blocks ahead", CHOOSE j \in late : \A i \in late : j <= i)
  ELSE IF t.outcome = "exception" THEN Bad("non-YAML exception", Delivered(t))
  ELSE IF t.outcome = "raised" /\ t.bad.kind = "-" /\ Delivered(t) < n THEN Bad("error before all documents", Delivered(t))
  ELSE IF t.outcome = "raised" /\ t.bad.kind = "other" /\ ~HL!OrderOk(t.bad.doc, Delivered(t))
       THEN Bad("error before preceding documents", Delivered(t))
  ELSE IF t.outcome = "raised" /\ t.bad.kind = "reader"
          /\ \E k \in Delivered(t) + 1 .. n : t.bad.at > t.ends[k] /\ ~HL!MayPreempt(t.bad.at - t.ends[k], t.block)
       THEN Bad("reader error before earlier documents", Delivered(t))
  ELSE IF t.outcome = "done" /\ t.bad.kind = "-" /\ Delivered(t) # n THEN Bad("documents not delivered", Delivered(t))
  ELSE IF t.outcome = "abandoned" /\ ~HL!ReleasedAll(t.built, t.disposals, t.readsAfter)
       THEN Bad("loader not disposed on abandon", Delivered(t))
  ELSE IF t.outcome = "abandoned" /\ ~HL!NothingLeft({t.alive[j] : j \in DOMAIN t.alive})
       THEN Bad("loader not released on abandon", Delivered(t))
  ELSE JudgeRelease(t)

Judge(t) == IF t.judge = "release" THEN JudgeRelease(t) ELSE JudgeAll(t)

Init == tid \in 1 .. Len(Traces)
Next == FALSE /\ tid' = tid
Spec == Init /\ [][Next]_tid
Verdict == LET r == Judge(Traces[tid]) IN PrintT(<<"VERDICT", tid, r.ok, r.why, r.at>>)
=============================================================================
