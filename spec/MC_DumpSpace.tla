---------------------------- MODULE MC_DumpSpace ----------------------------
(***************************************************************************)
(* C08, dump clause, in every SITUATION a scalar can be written in:        *)
(* "every number, bool, null, date and datetime is written in a form that  *)
(* reads back as the same value [and every str that looks like another     *)
(* type is written quoted]" - whatever style the caller asks for, in block *)
(* or flow collections, as document root, sequence item, mapping key or    *)
(* mapping value.                                                          *)
(*                                                                         *)
(* A state is one scalar node (tag, text) of a pool (JSON from the         *)
(* harness, C08_CFG: reps = sequence of [tag |-> "int", text |-> chars];   *)
(* every text is a spelling of the type of its tag, or the tag is str) in  *)
(* one situation:                                                          *)
(*    style  requested scalar style (default_style / node.style)           *)
(*    flow   default_flow_style False ("block"), True ("flow"), None       *)
(*           ("auto": a collection of style-less scalars is a flow one)    *)
(*    pos    root | item | key | value                                     *)
(* L: serializer.py serialize_node (the two resolver lookups that make     *)
(*    event.implicit) + emitter.py choose_scalar_style / process_tag over  *)
(*    an abstraction of analyze_scalar for one-line printable ASCII texts: *)
(*    em = [plain, tag] = the form that is written.                        *)
(* H: the written form reads back with the type of the node:               *)
(*    an explicit tag says it; otherwise the repository's rules decide     *)
(*    (TypeRepo!ClassifyStyled: plain -> Classify(text), else str).        *)
(* DumpReadsBack: L => H in every situation.  The harness replays every    *)
(* state through the real serializers / emitters (Python and libyaml) and  *)
(* dumps every generated VALUE of every type in every situation; each      *)
(* emitted scalar is judged by TLC (Trace_Types: kinds "emit" and "dump"). *)
(***************************************************************************)
EXTENDS Naturals, Integers, Sequences, FiniteSets, TLC, Json, IOUtils, Decimal

H == INSTANCE TypeRepo
L == INSTANCE Resolver

Cfg == JsonDeserialize(IOEnv.C08_CFG)
Reps == Cfg.reps

Styles == {"none", "single", "double", "literal", "folded"}
Flows == {"block", "flow", "auto"}
Positions == {"root", "item", "key", "value"}

VARIABLES rep, style, flow, pos, em
vars == <<rep, style, flow, pos, em>>

\* ---- L: serializer.py
Implicit(tag, text) == <<L!Resolve(text, <<TRUE, FALSE>>) = tag, L!Resolve(text, <<FALSE, TRUE>>) = tag>>

\* ---- L: emitter.py analyze_scalar, for texts of printable ASCII without line breaks
LeadIndicators == {"#", ",", "[", "]", "{", "}", "&", "*", "!", "|", ">", "'", "\"", "%", "@", "`"}
FlowIndicators == {",", "?", "[", "]", "{", "}", ":"}
FollowedByWs(t, i) == i = Len(t) \/ t[i + 1] = " "
DocMarker(t) == Len(t) >= 3 /\ (SubSeq(t, 1, 3) = <<"-", "-", "-">> \/ SubSeq(t, 1, 3) = <<".", ".", ".">>)
BlockInd(t) == \/ t[1] \in LeadIndicators
               \/ (t[1] \in {"?", "-"} /\ FollowedByWs(t, 1))
               \/ \E i \in DOMAIN t : t[i] = ":" /\ FollowedByWs(t, i)
               \/ \E i \in 2 .. Len(t) : t[i] = "#" /\ t[i - 1] = " "
               \/ DocMarker(t)
FlowInd(t) == \/ BlockInd(t)
              \/ t[1] \in {"?", ":"}
              \/ \E i \in 2 .. Len(t) : t[i] \in FlowIndicators
EdgeSpace(t) == t[1] = " " \/ t[Len(t)] = " "
AllowBlockPlain(t) == t = <<>> \/ (~BlockInd(t) /\ ~EdgeSpace(t))
AllowFlowPlain(t)  == t # <<>> /\ ~FlowInd(t) /\ ~EdgeSpace(t)
AllowBlock(t)      == t # <<>> /\ t[Len(t)] # " "

\* ---- L: where the scalar stands (representer.py: best_style; emitter.py: flow_level, check_simple_key)
InFlow(st, fl, p)  == p # "root" /\ (fl = "flow" \/ (fl = "auto" /\ st = "none"))
SimpleKey(p, t)    == p = "key" /\ t # <<>>

\* ---- L: emitter.py choose_scalar_style, process_tag
Chosen(t, imp, st, fl, p) ==
  IF st = "double" THEN "double"
  ELSE IF st = "none" /\ imp[1] /\ (IF InFlow(st, fl, p) THEN AllowFlowPlain(t) ELSE AllowBlockPlain(t)) THEN "plain"
  ELSE IF st \in {"literal", "folded"} /\ ~InFlow(st, fl, p) /\ ~SimpleKey(p, t) /\ AllowBlock(t) THEN st
  ELSE IF st \in {"none", "single"} THEN "single"
  ELSE "double"
Emit(r, st, fl, p) ==
  LET t   == Reps[r].text
      imp == Implicit(Reps[r].tag, t)
      ch  == Chosen(t, imp, st, fl, p)
      elided == (ch = "plain" /\ imp[1]) \/ (ch # "plain" /\ imp[2])
  IN  [plain |-> ch = "plain", tag |-> IF elided THEN "" ELSE Reps[r].tag, written |-> ch]

Init == /\ rep \in DOMAIN Reps
        /\ style = "-" /\ flow = "-" /\ pos = "-"
        /\ em = [plain |-> FALSE, tag |-> "-", written |-> "-"]
Situate == /\ pos = "-"
           /\ \E st \in Styles, fl \in Flows, p \in Positions :
                /\ style' = st /\ flow' = fl /\ pos' = p
                /\ em' = Emit(rep, st, fl, p)
           /\ UNCHANGED rep
Next == Situate
Spec == Init /\ [][Next]_vars

\* ---- H
ReadBackClass(text, e) == IF e.tag # "" THEN e.tag ELSE H!ClassifyStyled(text, e.plain)
\* the pool holds what the clause speaks about: spellings of the type of the tag, and strs
PoolWellFormed == \A r \in DOMAIN Reps : Reps[r].tag = "str" \/ H!Classify(Reps[r].text) = Reps[r].tag
ASSUME PoolWellFormed
DumpReadsBack == pos # "-" => ReadBackClass(Reps[rep].text, em) = Reps[rep].tag
=============================================================================
