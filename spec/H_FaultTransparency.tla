------------------------ MODULE H_FaultTransparency ------------------------
(***************************************************************************)
(* Property C19 as a specification (H layer), written from the statement:  *)
(*                                                                         *)
(*   "If the stream's read or write, or a user-supplied constructor or     *)
(*    representer, raises at any point, that same exception reaches the    *)
(*    caller unchanged; what has been written to the output stream up to   *)
(*    then is a prefix of what the fault-free run writes; and the library  *)
(*    is left usable - the next call behaves as if the failed one had not  *)
(*    happened."                                                           *)
(*                                                                         *)
(* Exceptions are compared by identity: `injected` names the exception     *)
(* object the environment raised, `reached` names the object that arrived  *)
(* at the caller ("none" if the call returned).  Written data is a         *)
(* sequence of abstract chunks (Api.tla) or a string (Trace_Faults.tla:    *)
(* TLC evaluates Len and SubSeq on strings).                               *)
(***************************************************************************)
EXTENDS Naturals, Sequences

\* Persistent faults: the caller's stream / callback may STAY broken - every invocation after the first failing one raises
\* too, each time a different object.  "That same exception" is the FIRST one the environment raised: `injected` names it.
\* H deliberately does not say "no caller-supplied code is invoked after the failure": the statement lets the library
\* write while the exception unwinds, as long as the output stays a prefix (that fact is L_QuietUnwinding of Api.tla, an
\* L-level invariant, and a drift note of the binding).  What the statement does forbid - something else reaching the
\* caller in place of its own exception - is what a persistent fault turns every such late invocation into: a pending
\* second construction step run in a `finally` (constructor), a flush after dispose (emitter), ...
PassedThrough(reached, injected) == reached = injected
\* "unchanged": what the caller can read off the object (type, arguments, attributes, text) is what it was when raised
ContentUnchanged(c, c0) == c = c0
IsPrefix(w, f) == Len(w) <= Len(f) /\ (Len(w) = 0 \/ SubSeq(f, 1, Len(w)) = w)
\* "as if the failed one had not happened": library-global state right after the failed call is what it was before it
StateRestored(g, g0) == g = g0
\* ... and so are the objects the caller handed to the failed call (values, nodes, events: an attribute added is a change)
ArgumentsUntouched(a, a0) == a = a0
\* "the next call behaves as if the failed one had not happened" (C11's H for the follow-up call; the follow-up may hand in
\* the very same argument objects again)
LeftUsable(next, nextFresh, g, g0) == next = nextFresh /\ g = g0
=============================================================================
