SPECIFICATION Spec
CONSTANTS
  Shapes = {"empty", "word", "below"}
  Tails = {"none", "dots"}
  MaxDocs = 3
  Sizes = {4}
  Kinds = {"one", "two", "line", "doc", "half", "all"}
  MaxPeriod = 2
  EofRule = "empty"
INVARIANT DocBoundariesKept
INVARIANT InOrder
INVARIANT EofOnlyAtEnd
