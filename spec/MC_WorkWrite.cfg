SPECIFICATION PSpec
CONSTANTS
  MaxRun = 2
  W = 3
  MaxTot = 0
  Variant = "code"
INVARIANT StepCost
INVARIANT RunBound
