-------------------------- MODULE Trace_Determinism --------------------------
(***************************************************************************)
(* Judgement of dump outputs recorded from the real code in separate       *)
(* interpreters (H of C16).  One TLC run judges a batch: one initial state *)
(* per record.                                                             *)
(*                                                                         *)
(* file:    [heaps |-> table of values (heaps as in H_RoundTrip),          *)
(*           recs  |-> the records]                                        *)
(* record:  kind   "contents" | "process" | "fixed" | "order" | "anchors"  *)
(*          h      index of the value dumped in the table of heaps         *)
(*          sort   sort_keys                                               *)
(*          outs   digests of output texts (contents, process) /           *)
(*                 <<t1, t2>> (fixed) / anchor name sequences alone,       *)
(*                 second, after (anchors)                                 *)
(*          ins, doc, load   key digests per dict (order)                  *)
(***************************************************************************)
EXTENDS Naturals, Sequences, FiniteSets, TLC, Json, IOUtils
HD == INSTANCE H_Determinism

Data == JsonDeserialize(IOEnv.TRACE_FILE)
Traces == Data.recs
HeapOf(t) == Data.heaps[t.h]
VARIABLE tid

Holds(t) ==
  CASE t.kind = "contents" -> HD!ContentsOnly(HeapOf(t), t.sort, t.outs)
    [] t.kind = "process"  -> HD!ProcessIndependent(HeapOf(t), t.sort, t.outs)
    [] t.kind = "fixed"    -> HD!FixedPoint(HeapOf(t), t.sort, t.outs[1], t.outs[2])
    [] t.kind = "order"    -> HD!OrderKept(t.sort, t.ins, t.doc, t.load)
    [] t.kind = "anchors"  -> HD!NamesOfDocumentAlone(t.outs[1], t.outs[2], t.outs[3])
    [] OTHER -> FALSE
\* does the clause say anything about this record?  (reported so that the harness can refuse a vacuous run)
Applies(t) ==
  CASE t.kind = "contents" -> HD!SortApplies(HeapOf(t), t.sort)
    [] t.kind \in {"process", "fixed"} -> HD!OrderDetermined(HeapOf(t), t.sort)
    [] t.kind = "order" -> ~t.sort
    [] OTHER -> TRUE

Init == tid \in 1 .. Len(Traces)
Next == FALSE /\ tid' = tid
Spec == Init /\ [][Next]_tid
Verdict == LET t == Traces[tid] IN PrintT(<<"VERDICT", tid, Holds(t), IF Applies(t) THEN t.kind ELSE "n/a", 0>>)
=============================================================================
