--------------------------- MODULE Trace_RoundTrip ---------------------------
(***************************************************************************)
(* Judgement of dump / load observations of the real code (H of C02).      *)
(* One TLC run judges a whole batch: one initial state per observation.    *)
(*                                                                         *)
(* observation record:                                                     *)
(*   outcome  "ok" | "dump-error" | "load-error"   (an exception of either *)
(*            call; a value of the universe must be dumped and the text    *)
(*            must be accepted by the loader)                              *)
(*   ord      TRUE when key order is part of the comparison (sort_keys off)*)
(*   h1, r1   the value given to yaml.dump, as a rooted heap               *)
(*   h2, r2   the value returned by yaml.load                              *)
(* heaps as in H_RoundTrip: cell = [t, d, c], reference = [id, t, d].      *)
(***************************************************************************)
EXTENDS Naturals, Sequences, FiniteSets, TLC, Json, IOUtils
RT == INSTANCE H_RoundTrip

Traces == JsonDeserialize(IOEnv.TRACE_FILE)
VARIABLE tid

Judge(t) ==
  IF t.outcome # "ok" THEN [ok |-> FALSE, why |-> t.outcome]
  ELSE LET w == RT!Judge(t.h1, t.r1, t.h2, t.r2, t.ord) IN [ok |-> w = "-", why |-> w]

Init == tid \in 1 .. Len(Traces)
Next == FALSE /\ tid' = tid
Spec == Init /\ [][Next]_tid
Verdict == LET r == Judge(Traces[tid]) IN PrintT(<<"VERDICT", tid, r.ok, r.why, 0>>)
=============================================================================
