SPECIFICATION Spec
CONSTANTS
  Block = 4
  MaxKey = 4
  MaxFlow = 1
  MaxCol = 1
  MaxRun = 3
  MaxLen = 24
  Stream = FALSE
  Exact = TRUE
  Variant = "code"
  Sym = {"w", "s"}
INVARIANT StepCost
INVARIANT Progress
INVARIANT LinearPerMech
INVARIANT LinearWork
