---------------------------- MODULE PathResolver ----------------------------
(***************************************************************************)
(* Path resolvers (resolver.py:48-165, composer.py:63-86): how a path      *)
(* registered with add_path_resolver decides the tag of an untagged node.  *)
(* Part of C10 ("registering ... a path resolver on a class takes effect   *)
(* for that class"): the effect is the one the comment of                  *)
(* add_path_resolver documents.                                            *)
(*                                                                         *)
(* A behaviour builds a document one event at a time (scalar, sequence /   *)
(* mapping start, end) below a root, for one registered resolver           *)
(* [path, kind] chosen in Init.  For every node event the state carries    *)
(*   htag : H - does the registered path match this node ?  Written from   *)
(*          the documentation: element i of the path describes the i-th    *)
(*          step from the root - the kind of the parent (node_check) and   *)
(*          where the child sits in it (index_check: True = a mapping key, *)
(*          None/False = any value or item, a string = the value under    *)
(*          that scalar key, an int = the item at that index); the path    *)
(*          must be as long as the node is deep; kind restricts the node.  *)
(*   ltag : L - descend_resolver / ascend_resolver / resolve: two stacks   *)
(*          (resolver_exact_paths, resolver_prefix_paths) pushed at every  *)
(*          node, check_resolver_prefix on the parent and the index, the   *)
(*          depth taken from the length of the stack.                      *)
(* Invariant Agree: ltag = htag at every node.  The harness registers the  *)
(* same resolver on a fresh subclass of each loader, composes the printed  *)
(* document and compares every node's tag.                                 *)
(***************************************************************************)
EXTENDS Naturals, Sequences, FiniteSets, TLC

CONSTANTS MaxEvents,      \* events below the implicit document
          MaxDepth,       \* nesting of collections
          NodeChecks,     \* subset of {"any", "q", "m"}
          IndexChecks,    \* subset of {"None", "True", "False", "a", "b", "0", "1"}
          MaxPath,        \* path length 0 .. MaxPath
          KindsReg        \* subset of {"any", "s", "q", "m"}

VARIABLES reg,     \* the registered resolver [path |-> <<[nc, ic]>>, kind]
          evs,     \* events so far: [k |-> "S"|"Q"|"M"|"E", v |-> scalar text]
          stack,   \* open collections: [kind, n (children so far), key (text of the pending key scalar, "-" none/non-scalar),
                   \*                    via (the step by which this collection was entered)]
          exact,   \* L: resolver_exact_paths  - a stack of "hit" flags (does this level's exact_paths hold the resolver ?)
          prefix,  \* L: resolver_prefix_paths - a stack of "alive" flags (is the resolver still in this level's prefix list ?)
          htag, ltag   \* for the last node event: TRUE iff the resolver applies
vars == <<reg, evs, stack, exact, prefix, htag, ltag>>

Last(s) == s[Len(s)]
Front(s) == SubSeq(s, 1, Len(s) - 1)
PathElems == {[nc |-> n, ic |-> i] : n \in NodeChecks, i \in IndexChecks}
PathsUpTo(n) == UNION {[1 .. m -> PathElems] : m \in 0 .. n}

(***************************************************************************)
(* where the next child of the innermost open collection sits              *)
(***************************************************************************)
\* a step: [pk |-> parent kind, pos |-> "key" | "val" | "item", key |-> text of the key scalar, idx |-> item index]
NextStep(st) ==
  LET p == Last(st) IN
  IF p.kind = "q" THEN [pk |-> "q", pos |-> "item", key |-> "-", idx |-> p.n]
  ELSE IF p.n % 2 = 0 THEN [pk |-> "m", pos |-> "key", key |-> "-", idx |-> 0]
  ELSE [pk |-> "m", pos |-> "val", key |-> p.key, idx |-> 0]
\* steps from the root to the node about to be created: the step by which every open collection below the root was
\* entered (recorded in its frame when it was started), then the step inside the innermost one
Steps(st) == IF st = <<>> THEN <<>>
             ELSE [i \in 1 .. Len(st) |-> IF i < Len(st) THEN st[i + 1].via ELSE NextStep(st)]

(***************************************************************************)
(* H : the documented meaning                                              *)
(***************************************************************************)
NodeCheckOk(nc, step) == nc = "any" \/ nc = step.pk
IndexCheckOk(ic, step) ==
  CASE ic = "True"  -> step.pos = "key"
    [] ic \in {"None", "False"} -> step.pos # "key"
    [] ic \in {"a", "b"} -> step.pos = "val" /\ step.key = ic
    [] ic = "0" -> step.pos = "item" /\ step.idx = 0
    [] ic = "1" -> step.pos = "item" /\ step.idx = 1
    [] OTHER -> FALSE
ElemOk(e, step) == NodeCheckOk(e.nc, step) /\ IndexCheckOk(e.ic, step)
KindOk(k, nk) == k = "any" \/ k = nk
HApplies(r, steps, nk) ==
  /\ Len(r.path) = Len(steps)
  /\ \A i \in DOMAIN steps : ElemOk(r.path[i], steps[i])
  /\ KindOk(r.kind, nk)

(***************************************************************************)
(* L : resolver.py                                                         *)
(***************************************************************************)
\* check_resolver_prefix(depth, path, kind, current_node, current_index) on path[depth-1]
CheckPrefix(r, depth, step) == ElemOk(r.path[depth], step)
\* descend_resolver(current_node, current_index): returns the two flags pushed for the new level
Descend(r, st, ex, pf) ==
  IF st = <<>> THEN                                         \* the root: current_node is None
     [hit |-> r.path = <<>>, alive |-> r.path # <<>>]
  ELSE LET depth == Len(pf)                                 \* len(self.resolver_prefix_paths)
           step == NextStep(st) IN
       IF Last(pf) /\ CheckPrefix(r, depth, step)
       THEN [hit |-> Len(r.path) = depth, alive |-> Len(r.path) > depth]
       ELSE [hit |-> FALSE, alive |-> FALSE]
\* resolve(kind, ...): exact_paths[kind] or exact_paths[None]
LApplies(r, hit, nk) == hit /\ KindOk(r.kind, nk)

(***************************************************************************)
(* the document generator                                                  *)
(***************************************************************************)
CanAdd == Len(evs) + 1 + Len(stack) <= MaxEvents
KeyTexts == {"a", "b"}
Bump(st, keytext) == IF st = <<>> THEN st
                     ELSE [st EXCEPT ![Len(st)] = [@ EXCEPT !.n = @ + 1, !.key = keytext]]

Scalar(txt) ==
  /\ CanAdd /\ (stack # <<>> \/ evs = <<>>)
  /\ LET d == Descend(reg, stack, exact, prefix) IN
     /\ htag' = HApplies(reg, Steps(stack), "s")
     /\ ltag' = LApplies(reg, d.hit, "s")
     /\ evs' = Append(evs, [k |-> "S", v |-> txt])
     /\ stack' = Bump(stack, IF stack # <<>> /\ Last(stack).kind = "m" /\ Last(stack).n % 2 = 0 THEN txt ELSE "-")
     /\ UNCHANGED <<reg, exact, prefix>>                     \* pushed and popped again (ascend_resolver)

Start(kind) ==
  /\ CanAdd /\ Len(evs) + 2 + Len(stack) <= MaxEvents /\ Len(stack) < MaxDepth /\ (stack # <<>> \/ evs = <<>>)
  /\ LET d == Descend(reg, stack, exact, prefix) IN
     /\ htag' = HApplies(reg, Steps(stack), kind)
     /\ ltag' = LApplies(reg, d.hit, kind)
     /\ evs' = Append(evs, [k |-> (IF kind = "q" THEN "Q" ELSE "M"), v |-> "-"])
     /\ stack' = Append(Bump(stack, "-"), [kind |-> kind, n |-> 0, key |-> "-",
                                            via |-> IF stack = <<>> THEN [pk |-> "-", pos |-> "root", key |-> "-", idx |-> 0] ELSE NextStep(stack)])
     /\ exact' = Append(exact, d.hit) /\ prefix' = Append(prefix, d.alive)
     /\ UNCHANGED reg

End ==
  /\ stack # <<>> /\ (Last(stack).kind = "q" \/ Last(stack).n % 2 = 0)
  /\ evs' = Append(evs, [k |-> "E", v |-> "-"])
  /\ stack' = Front(stack)
  /\ exact' = Front(exact) /\ prefix' = Front(prefix)        \* ascend_resolver
  /\ UNCHANGED <<reg, htag, ltag>>

Init == /\ reg \in {[path |-> p, kind |-> k] : p \in PathsUpTo(MaxPath), k \in KindsReg}
        /\ evs = <<>> /\ stack = <<>> /\ exact = <<>> /\ prefix = <<>> /\ htag = FALSE /\ ltag = FALSE
Next == (\E t \in KeyTexts : Scalar(t)) \/ Start("q") \/ Start("m") \/ End
Spec == Init /\ [][Next]_vars

Agree == ltag = htag
\* the two stacks move together and are as deep as the open collections
Balanced == Len(exact) = Len(stack) /\ Len(prefix) = Len(stack)
=============================================================================
