SPECIFICATION Spec
CONSTANTS
  Eps = 15
  MaxKey = 1024
INVARIANT Verdict
