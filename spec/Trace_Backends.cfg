SPECIFICATION Spec
INVARIANT Verdict
