----------------------------- MODULE Trace_Docs -----------------------------
(***************************************************************************)
(* Judgement of multi-document observations by H_DocBoundaries.            *)
(* Two kinds of trace records:                                             *)
(*  run     [fam |-> 0, outcome, din, dout, snaps, final]                  *)
(*          one call of emit / serialize_all / dump_all on n documents     *)
(*          followed by parse / compose_all / load_all: din, dout = the    *)
(*          documents as sequences of event records (for node and value    *)
(*          paths: the canonical traversal, tags never elidable), snaps =  *)
(*          the output text observed after each document, final = the      *)
(*          complete text (sequences of code points); optional: unread     *)
(*          (read back from a file-like object), snapoff (lengths of the   *)
(*          texts after the documents instead of snaps)                    *)
(*  family  [fam |-> 1, texts]  the texts observed after the same leading  *)
(*          documents in runs with different continuations                 *)
(* Verdict line <<"VERDICT", tid, ok, why, at>>.                           *)
(***************************************************************************)
EXTENDS Naturals, Sequences, FiniteSets, TLC, Json, IOUtils
HD == INSTANCE H_DocBoundaries

Traces == JsonDeserialize(IOEnv.TRACE_FILE)
VARIABLE tid

HasEmptyRoot(din) == \E j \in DOMAIN din : HD!EmptyRootDoc(din[j])

\* A run whose documents were read back from a file-like object (spec/DocDeliver.tla) carries `unread`: the number of units of
\* the stream the loader never asked for.  Its text was read back correctly from a string before, so a failure is named after the
\* delivery, never after the emitter's empty-root shapes.
Delivered(t) == "unread" \in DOMAIN t
DeliveryLabel(t) == IF t.unread > 0 THEN ":input-not-read" ELSE ":delivery"
\* The texts after the documents are given in full (`snaps`) or - when each of them is a prefix of the final text, which is
\* what the offsets then say - as their lengths (`snapoff`; long lists).
ByOffset(t) == "snapoff" \in DOMAIN t
NSnaps(t) == IF ByOffset(t) THEN Len(t.snapoff) ELSE Len(t.snaps)
NotKept(t) == IF ByOffset(t) THEN {j \in DOMAIN t.snapoff : t.snapoff[j] > Len(t.final)}
              ELSE {j \in DOMAIN t.snaps : ~HD!IsPrefix(t.snaps[j], t.final)}
Changed(t) == IF ByOffset(t) THEN \E j \in 1 .. Len(t.snapoff) - 1 : t.snapoff[j] > t.snapoff[j + 1]
              ELSE \E j \in 1 .. Len(t.snaps) - 1 : ~HD!IsPrefix(t.snaps[j], t.snaps[j + 1])

JudgeRun(t) ==
  IF t.outcome = "exception" THEN [ok |-> FALSE, why |-> "non-YAML exception" \o (IF Delivered(t) THEN DeliveryLabel(t) ELSE ""), at |-> 0]
  ELSE IF t.outcome # "ok"
  THEN [ok |-> FALSE, at |-> 0,
        why |-> t.outcome \o (IF Delivered(t) THEN DeliveryLabel(t)
                              ELSE IF HasEmptyRoot(t.din) THEN ":has-empty-root:" \o HD!EmptyRootKind(t.din) ELSE "")]
  ELSE LET r == HD!SameDocuments(t.din, t.dout)
       IN  IF ~r.ok
           THEN [ok |-> FALSE, at |-> r.at,
                 why |-> r.why \o (IF Delivered(t) THEN DeliveryLabel(t)
                                   ELSE IF r.why = "tag" /\ r.at > 0 /\ HD!H!RedefinesDefault(t.din[r.at][1]) THEN ":default-handle-redefined"
                                   ELSE IF HD!LostEmptyDocs(t.din, t.dout, 0) THEN ":empty-root-lost:" \o HD!LostKind(t.din, t.dout) ELSE "")]
           ELSE IF NSnaps(t) # Len(t.din) THEN [ok |-> FALSE, why |-> "snapshot count", at |-> 0]
           ELSE IF NotKept(t) # {}
           THEN [ok |-> FALSE, why |-> "text after a document is not kept", at |-> CHOOSE j \in NotKept(t) : TRUE]
           ELSE IF Changed(t)
           THEN [ok |-> FALSE, why |-> "text of an earlier document changed", at |-> 0]
           ELSE [ok |-> TRUE, why |-> "-", at |-> 0]

JudgeFamily(t) ==
  IF \A j \in DOMAIN t.texts : t.texts[j] = t.texts[1] THEN [ok |-> TRUE, why |-> "-", at |-> 0]
  ELSE [ok |-> FALSE, why |-> "text depends on what follows", at |-> 0]

Judge(t) == IF t.fam = 1 THEN JudgeFamily(t) ELSE JudgeRun(t)

Init == tid \in 1 .. Len(Traces)
Next == FALSE /\ tid' = tid
Spec == Init /\ [][Next]_tid
Verdict == LET r == Judge(Traces[tid]) IN PrintT(<<"VERDICT", tid, r.ok, r.why, r.at>>)
=============================================================================
