#!/bin/bash
# usage: finish_seeder.sh <prop> <Ma> <Mb> : confirm both mutants of a finished seeder, run the property's quick check against
# each (scratch worktrees), remove the seeder's worktree
p=$1; shift
for m in "$@"; do
  [ -d /tmp/wt/$p/_out/$m ] || { echo "$p-$m: not delivered"; continue; }
  tools/confirm_mutant.sh $p $m | tail -2
done
git -C /repo worktree remove --force /tmp/wt/$p
for m in "$@"; do
  [ -d seeded/$p-$m ] && tools/try_mutant_wt.sh $p-$m $p quick
done
