#!/bin/sh
# usage: mkwt.sh <name>  -> scratch git worktree of /repo HEAD at /tmp/wt/<name> with the built C extension copied in
set -e
d=/tmp/wt/$1
mkdir -p /tmp/wt
git -C /repo worktree add -q --detach "$d" HEAD
cp /repo/lib/yaml/_yaml.cpython-312-x86_64-linux-gnu.so "$d/lib/yaml/"
echo "$d"
