#!/usr/bin/env python3
"""Merge known_findings.d/*.json (written per property by the builders) into known_findings.json (the one file the checks are
documented to read; harness/common.py reads both, entries are keyed by id)."""
import json, glob
p = '/verif/known_findings.json'
kf = json.load(open(p))
own = [k for k in kf['known'] if k.get('source', 'main') == 'main']
for k in own:
    k['source'] = 'main'
merged = {k['id'] + '/' + k['property']: k for k in own}
for f in sorted(glob.glob('/verif/known_findings.d/*.json')):
    for k in json.load(open(f)).get('known', []):
        k = dict(k, source=f.split('/')[-1])
        merged[k['id'] + '/' + k['property']] = k
kf['known'] = list(merged.values())
json.dump(kf, open(p, 'w'), indent=1)
print(len(kf['known']), 'known,', len(kf['fixed']), 'fixed')
