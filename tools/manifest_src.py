CHECKS = {
 'C10': {
  'text': 'Bounded-exhaustive model checking of spec/Registry.tla (L: copy-on-first-write tables with dict identity; H: the visibility rule of the property) - TLC proves L refines H and the frame conditions for all registration histories up to the bound, and every reachable state (one history each) is replayed on the live classes: effective tables of all 26 shipped classes + user subclasses and dispatch probes are compared with the H prediction.',
  'design_ref': 'DESIGN.md 5/C10',
  'note': 'Bounds: histories <= 3 (thorough 4) per kind pair, single inheritance for user classes, 3 abstract keys per table with every other entry checked as unchanged frame. Trusted: TLC, the alpha abstraction in harness/props/c10.py.',
  'technique': 'TLA+ model (Registry.tla) checked by TLC, MBT replay of every reachable state into the live classes'},
 'C14': {
  'text': 'Bounded-exhaustive model checking of spec/MapMeaning.tla: every reachable state is a document (node heap with sharing, merge keys, merge lists, self-merge, set/omap/pairs tags, duplicate/equal/unhashable keys); TLC checks that the implementation-shaped construction (in-place flatten_mapping, two-phase queue order) agrees with the declarative meaning of the property on every document, and every document is printed and loaded by the real loaders (Python and LibYAML) and compared with the declarative meaning.',
  'design_ref': 'DESIGN.md 5/C14',
  'note': 'Bounds: <= 3 collection nodes (4 for merge-only alphabets; thorough 5), <= 2 entries per mapping. Keys compared modulo Python equality; key order only checked where the mapping has no merge key (as the statement says). Trusted: TLC, the flow-style printer and matcher in harness/props/c14.py.',
  'technique': 'TLA+ model (MapMeaning.tla: H meaning vs L in-place flattening) checked by TLC, every state replayed as a document through the real loaders'},
 'C13': {
  'text': 'Bounded-exhaustive model checking of spec/Composer.tla: every event stream up to the bound (anchors on scalars and collections, aliases backward / undefined / nested / self-referential / across documents, plain, !!set and python/object mappings) is run through the composer model (anchors table registered before children, cleared per document) and TLC checks it against the rule written on the event list alone; every complete stream is printed, composed and loaded by the real loaders and the identity partition of node and object graphs, and the error class, are compared with the state.',
  'design_ref': 'DESIGN.md 5/C13',
  'note': 'Bounds: <= 7 events (thorough 8), <= 2 documents, anchors {a,b}. Identity compared for list, dict, set, constructed objects (and all nodes at compose level). Trusted: TLC, printer and projections in harness/props/c13.py.',
  'technique': 'TLA+ model (Composer.tla) checked by TLC with lazy input choice, every complete stream replayed through compose_all/load_all'},
 'C09': {
  'text': 'spec/Parser.tla models the push-down parser one action per parse_* method with lazy token choice; TLC checks for ALL token sequences up to the bound that no operation crashes, that the emitted events satisfy the event grammar monitor (EventGrammar.tla) and that marks are in range and monotone. Every complete token sequence of the history configuration is replayed through the real Parser over a stub token source; real event streams (stub-driven, and scan/parse of the data corpus and seeded mutations on both back-ends) and token streams are judged by TLC trace specifications (Trace_Events.tla, Trace_Tokens.tla) including line/column = Pos(input, index) and text-between-marks = value.',
  'design_ref': 'DESIGN.md 5/C09',
  'note': 'Bounds: design check <= 7 tokens (thorough 9) over 21 token kinds, replay <= 5 (6) tokens; corpus = 574 data files + seeded truncation/insertion/deletion mutants. The full LL(1) token grammar is enforced through the parser model, the scan-only token check covers stream/block brackets and marks. LibYAML: range/order/grammar only. Trusted: TLC, stub driver and projections in harness/props/c09.py.',
  'technique': 'TLA+ model (Parser.tla + EventGrammar.tla) checked by TLC; MBT replay into the real Parser; TLC trace validation of recorded event/token streams'},
}
NOT_YET = {}
