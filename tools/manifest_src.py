CHECKS = {
 'C10': {
  'text': 'Bounded-exhaustive model checking of spec/Registry.tla (L: copy-on-first-write tables with dict identity; H: the visibility rule of the property) - TLC proves L refines H and the frame conditions for all registration histories up to the bound, and every reachable state (one history each) is replayed on the live classes: effective tables of all 26 shipped classes + user subclasses and dispatch probes are compared with the H prediction.',
  'design_ref': 'DESIGN.md 5/C10',
  'note': 'Bounds: histories <= 3 (thorough 4) per kind pair, single inheritance for user classes, 3 abstract keys per table with every other entry checked as unchanged frame. Trusted: TLC, the alpha abstraction in harness/props/c10.py.',
  'technique': 'TLA+ model (Registry.tla) checked by TLC, MBT replay of every reachable state into the live classes'},
}
NOT_YET = {}
