CHECKS = {
 'C10': {
  'text': 'Bounded-exhaustive model checking of spec/Registry.tla (L: copy-on-first-write tables with dict identity; H: the visibility rule of the property) - TLC proves L refines H and the frame conditions for all registration histories up to the bound, and every reachable state (one history each) is replayed on the live classes: effective tables of all 26 shipped classes + user subclasses and dispatch probes are compared with the H prediction.',
  'design_ref': 'DESIGN.md 5/C10',
  'note': 'Bounds: histories <= 3 (thorough 4) per kind pair, single inheritance for user classes, 3 abstract keys per table with every other entry checked as unchanged frame. Trusted: TLC, the alpha abstraction in harness/props/c10.py.',
  'technique': 'TLA+ model (Registry.tla) checked by TLC, MBT replay of every reachable state into the live classes'},
 'C14': {
  'text': 'Bounded-exhaustive model checking of spec/MapMeaning.tla: every reachable state is a document (node heap with sharing, merge keys, merge lists, self-merge, set/omap/pairs tags, duplicate/equal/unhashable keys); TLC checks that the implementation-shaped construction (in-place flatten_mapping, two-phase queue order) agrees with the declarative meaning of the property on every document, and every document is printed and loaded by the real loaders (Python and LibYAML) and compared with the declarative meaning.',
  'design_ref': 'DESIGN.md 5/C14',
  'note': 'Bounds: <= 3 collection nodes (4 for merge-only alphabets; thorough 5), <= 2 entries per mapping. Keys compared modulo Python equality; key order only checked where the mapping has no merge key (as the statement says). Trusted: TLC, the flow-style printer and matcher in harness/props/c14.py.',
  'technique': 'TLA+ model (MapMeaning.tla: H meaning vs L in-place flattening) checked by TLC, every state replayed as a document through the real loaders'},
 'C13': {
  'text': 'Bounded-exhaustive model checking of spec/Composer.tla: every event stream up to the bound (anchors on scalars and collections, aliases backward / undefined / nested / self-referential / across documents, plain, !!set and python/object mappings) is run through the composer model (anchors table registered before children, cleared per document) and TLC checks it against the rule written on the event list alone; every complete stream is printed, composed and loaded by the real loaders and the identity partition of node and object graphs, and the error class, are compared with the state.',
  'design_ref': 'DESIGN.md 5/C13',
  'note': 'Bounds: <= 7 events (thorough 8), <= 2 documents, anchors {a,b}. Identity compared for list, dict, set, constructed objects (and all nodes at compose level). Trusted: TLC, printer and projections in harness/props/c13.py.',
  'technique': 'TLA+ model (Composer.tla) checked by TLC with lazy input choice, every complete stream replayed through compose_all/load_all'},
}
NOT_YET = {}
