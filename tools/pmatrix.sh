#!/bin/bash
# usage: pmatrix.sh <tier> <jobs> <name>... : run each named seeded change against the check of its own property, <jobs> at a time
tier=$1; jobs=$2; shift 2
cd /verif
printf '%s\n' "$@" | xargs -P $jobs -I{} sh -c 'n={}; p=${n%%-*}; tools/try_mutant_wt.sh $n $p '$tier' | head -1'
