#!/bin/bash
# usage: try_patch_all.sh <patch.diff> <label> [check ids...] : apply a patch in a scratch worktree and run the quick tier of the
# given checks (default: all registered) against it; one line per check. Used for benign-change (false alarm) trials.
patch=$1; label=$2; shift 2
checks=${@:-$(/venv/bin/python -c "import json;print(' '.join(c['property_id'] for c in json.load(open('/verif/MANIFEST.json'))['checks']))")}
wt=/tmp/wt/all_${label}_$$
git -C /repo worktree add -q --detach "$wt" HEAD || exit 2
cp /repo/lib/yaml/_yaml.cpython-312-x86_64-linux-gnu.so "$wt/lib/yaml/"
git -C "$wt" apply "$(realpath $patch)" || { git -C /repo worktree remove --force "$wt"; echo "$label: patch does not apply"; exit 2; }
cd "$(dirname "$0")/.."
for id in $checks; do
  log=/tmp/all_${label}_$id.log
  VERIF_REPO="$wt" VERIF_BUILD_TAG="all_${label}_$id" VERIF_EVIDENCE_DIR=/tmp/wt/ev_all_$$ ./check $id --tier quick > $log 2>&1; rc=$?
  echo "$label vs $id: rc=$rc $(grep -c '^VIOLATION' $log) VIOLATION, $(grep -c '^NOTE' $log) notes $(grep -E 'violating case|machinery' $log | head -2 | cut -c1-200 | tr '\n' ' ')"
  rm -rf build/all_${label}_$id
done
git -C /repo worktree remove --force "$wt"; rm -rf /tmp/wt/ev_all_$$
