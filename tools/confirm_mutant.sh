#!/bin/bash
# usage: confirm_mutant.sh <prop> <Mx> : confirm in the scratch worktree /tmp/wt/<prop> that the mutant (a) applies, (b) passes the
# whole repository suite, (c) makes its demo fail, (d) demo passes without it; then store it as /verif/seeded/<prop>-<Mx>/
set -u
p=$1; m=$2; sfx=${3:-}; wt=/tmp/wt/$p$sfx; src=$wt/_out/$m; dst=/verif/seeded/$p-$m
cd $wt || exit 2
git checkout -q -- lib tests 2>/dev/null
PYTHONPATH=$wt/lib /venv/bin/python $src/demo.py > /tmp/wt/demo_clean.txt 2>&1; clean=$?
git apply $src/patch.diff || { echo "patch does not apply"; exit 2; }
suite=$(PYTHONPATH=$wt/lib /venv/bin/python -m pytest -q -p no:cacheprovider 2>&1 | tail -1)
PYTHONPATH=$wt/lib /venv/bin/python $src/demo.py > /tmp/wt/demo_mut.txt 2>&1; mut=$?
git checkout -q -- lib
echo "$p-$m: clean demo rc=$clean, mutant demo rc=$mut, suite: $suite"
if [ $clean -eq 0 ] && [ $mut -ne 0 ] && echo "$suite" | grep -q "^2608 passed"; then
  mkdir -p $dst && cp $src/patch.diff $src/demo.py $dst/ && cp $src/notes.txt $dst/notes.txt
  /venv/bin/python - "$p" "$m" "$suite" <<'PY'
import json, sys
p, m, suite = sys.argv[1:4]
notes = open(f'/verif/seeded/{p}-{m}/notes.txt').read()
json.dump({'property': p, 'origin': 'independent sub-agent given only the property text and a scratch worktree',
           'needs_to_manifest': notes.strip(),
           'confirmed': {'suite_with_patch': suite.strip(), 'demo_with_patch': 'FAIL (rc!=0)', 'demo_without_patch': 'PASS (rc=0)',
                         'how': 'tools/confirm_mutant.sh in a scratch worktree of /repo HEAD'},
           'detected_by': None}, open(f'/verif/seeded/{p}-{m}/meta.json', 'w'), indent=1)
PY
  echo "stored $dst"
else
  echo "NOT CONFIRMED"
fi
