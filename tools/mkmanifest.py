#!/usr/bin/env python3
"""Regenerate MANIFEST.json from tools/manifest_src.py (keeps it valid and the not_applicable list current)."""
import json, sys, os
sys.path.insert(0, os.path.dirname(__file__))
from manifest_src import CHECKS, NOT_YET
import glob
for f in sorted(glob.glob('/verif/manifest_parts/*.json')):
    d = json.load(open(f))
    CHECKS[d['property_id']] = d
PENDING = set(open('/verif/tools/pending.txt').read().split()) if os.path.exists('/verif/tools/pending.txt') else set()
for p_ in PENDING:
    CHECKS.pop(p_, None)
    NOT_YET[p_] = 'the specification and check for this property exist in /verif but are still being stabilised; not claimed until they have run green on the unchanged tree'
props = [json.loads(l)['id'] for l in open('/verif/properties.jsonl')]
checks = []
for pid in props:
    if pid in CHECKS:
        c = CHECKS[pid]
        checks.append({'property_id': pid, 'quick_cmd': './check %s --tier quick' % pid,
                       'thorough_cmd': './check %s --tier thorough' % pid,
                       'evidence_file': 'evidence/%s.json' % pid,
                       'replay_cmd_template': './check %s --replay {path}' % pid,
                       'engine': 'tlc+conformance',
                       'level_claimed': {'category': c.get('category', 'model_checking'), 'text': c['text'], 'design_ref': c['design_ref']},
                       'level_note': c['note'], 'technique': c['technique']})
na = [{'property_id': p, 'reason': NOT_YET.get(p, 'no check registered yet: the specification and harness for this property are still being built (plan: DESIGN.md section 5)')} for p in props if p not in CHECKS]
m = {'version': 1, 'setup_cmd': './setup.sh',
     'hooks': {'guard': 'PYYAML_VERIF', 'enable': 'no hooks are needed: every pipeline stage is driven through its mixin interface from outside the repository (DESIGN.md section 1)',
               'baseline_off_cmd': 'cd /repo && /venv/bin/python -m pytest -ra -q -p no:cacheprovider --timeout=900 --continue-on-collection-errors',
               'source_commits': [], 'add_only': True},
     'engines': [{'name': 'tlc+conformance', 'path': 'check', 'serves_properties': sorted(CHECKS),
                  'kind_free_text': 'TLA+ specifications in spec/ model-checked by TLC; every reachable state / generated behaviour is replayed into the real classes, and observations of the real code are judged against the specification'}],
     'checks': checks, 'not_applicable': na,
     'notes': 'See DESIGN.md. known_findings.json lists genuine defects (none suppress anything unless listed under known).'}
json.dump(m, open('/verif/MANIFEST.json', 'w'), indent=1)
print('claimed', sorted(CHECKS), 'unclaimed', [x['property_id'] for x in na])
