#!/bin/bash
# usage: benign_batch.sh <label>:<checks,comma> ... : false-alarm trials, one scratch worktree per benign patch (benign/<label>/patch.diff)
cd "$(dirname "$0")/.."
for spec in "$@"; do
  label=${spec%%:*}; checks=$(echo ${spec#*:} | tr ',' ' ')
  tools/try_patch_all.sh benign/$label/patch.diff $label $checks
done
