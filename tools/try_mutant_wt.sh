#!/bin/bash
# usage: try_mutant_wt.sh <seeded-dir-name> <check-id> [tier]
# Applies the seeded patch in a private scratch worktree (never touches /repo), runs the check against it through VERIF_REPO,
# removes the worktree. Evidence is written to a scratch directory (VERIF_EVIDENCE_DIR), not to /verif/evidence.
d=/verif/seeded/$1; id=$2; tier=${3:-quick}
wt=/tmp/wt/try_$1_$id_$$
mkdir -p /tmp/wt
git -C /repo worktree add -q --detach "$wt" HEAD || exit 2
cp /repo/lib/yaml/_yaml.cpython-312-x86_64-linux-gnu.so "$wt/lib/yaml/"
git -C "$wt" apply "$d/patch.diff" || { git -C /repo worktree remove --force "$wt"; exit 2; }
log=/tmp/try_$1_$id.log
cd /verif && VERIF_REPO="$wt" VERIF_BUILD_TAG="mut_$1_$id" VERIF_EVIDENCE_DIR=/tmp/wt/ev_$$ ./check $id --tier $tier > $log 2>&1; rc=$?
git -C /repo worktree remove --force "$wt"; rm -rf /tmp/wt/ev_$$
echo "$1 vs $id ($tier): rc=$rc  $(grep -c '^VIOLATION' $log) VIOLATION line(s)"
grep -E "violating case|^VIOLATION|machinery" $log | head -5 | cut -c1-300
/venv/bin/python - "$1" "$id" "$tier" "$rc" <<'PY'
import json, sys
m, cid, tier, rc = sys.argv[1:5]
p = '/verif/seeded/%s/meta.json' % m
d = json.load(open(p))
det = d.get('detected_by')
if not isinstance(det, dict):
    det = {}
det['%s %s' % (cid, tier)] = {'1': 'VIOLATION', '0': 'missed'}.get(rc, 'machinery failure rc=' + rc)
d['detected_by'] = det
json.dump(d, open(p, 'w'), indent=1)
PY
