#!/usr/bin/env python3
"""Print the prompt given to a mutant-seeding sub-agent for property <id> (property text only, nothing from /verif)."""
import json, sys
pid = sys.argv[1]
A, B = (sys.argv[2], sys.argv[3]) if len(sys.argv) > 3 else ('M1', 'M2')
suffix = sys.argv[4] if len(sys.argv) > 4 else ''
for l in open('/verif/properties.jsonl'):
    p = json.loads(l)
    if p['id'] == pid:
        break
else:
    sys.exit('no such property')
wt = f'/tmp/wt/{pid}{suffix}'
print(f"""You are helping to evaluate a verification tool for PyYAML (pure-Python YAML library with optional libyaml binding). Your job: act as a developer who introduces a subtle regression.

You have your own scratch git worktree of the PyYAML repository at {wt} (work ONLY there; never touch /repo or /verif, and do not read /verif). The C extension is already built and copied in (lib/yaml/_yaml*.so; Cython is NOT available, so edits to yaml/_yaml.pyx have no effect - change only Python files under lib/yaml/). Run the test suite with:
  cd {wt} && PYTHONPATH={wt}/lib /venv/bin/python -m pytest -q -p no:cacheprovider 2>&1 | tail -3
(2608 tests, ~10 s, all pass on the unchanged tree). Run scripts with: PYTHONPATH={wt}/lib /venv/bin/python script.py

Here is a semantic property of PyYAML that should hold:

TITLE: {p['title']}
STATEMENT: {p['statement']}
QUANTIFIED OVER: {p['quantifier']['text']}

Produce TWO different, independent, realistic source changes (mutants {A} and {B}, different mechanisms / different code sites) to lib/yaml/*.py, each of which:
 1. breaks the property above,
 2. still lets the complete existing test suite pass (all 2608 tests),
 3. looks like a plausible refactoring/optimisation/bug-fix gone wrong (not sabotage keyed on a magic string),
 4. needs something SPECIFIC to manifest - a particular multi-step sequence of operations, an unusual input, a particular chunking/fault point, or two cooperating sites that each look fine alone - not something ordinary use would expose at once.

For each mutant deliver, in the directory {wt}/_out/{A} and {wt}/_out/{B}:
 - patch.diff : `git diff` of the change against HEAD (only that mutant's change; make {A}, save diff, `git checkout -- lib`, then make {B}),
 - demo.py : a small standalone program that exits 0 and prints PASS on the unchanged tree, and exits 1 and prints FAIL (with what went wrong) with the patch applied. It is run as `PYTHONPATH=<tree>/lib /venv/bin/python demo.py`.
 - notes.txt : 3-6 lines: what was changed, why it breaks the property, what is needed for it to manifest.

Verify yourself: for each mutant, (a) apply it, run the whole suite (must be all passed), run demo.py (must FAIL); (b) `git checkout -- lib`, run demo.py (must PASS). Leave the worktree clean (git checkout -- lib) at the end, with only _out/ added. Finish with a short report: for each mutant one line describing it and the confirmed suite/demo results. If after real effort you can only produce one valid mutant, deliver one and say so.""")
