#!/bin/bash
# usage: try_mutant.sh <seeded-dir-name> <check-id> [tier] : apply the seeded patch to /repo, run the check, undo the patch
d=/verif/seeded/$1; id=$2; tier=${3:-quick}
cd /repo && git diff --quiet || { echo "/repo not clean"; exit 2; }
git -C /repo apply $d/patch.diff || exit 2
cd /verif && ./check $id --tier $tier > /tmp/try_$1_$id.log 2>&1; rc=$?
git -C /repo checkout -- .
echo "$1 vs $id ($tier): rc=$rc  $(grep -c VIOLATION /tmp/try_$1_$id.log) VIOLATION line(s)"
grep -E "violating case|VIOLATION|machinery" /tmp/try_$1_$id.log | head -5 | cut -c1-300
