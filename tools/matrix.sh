#!/bin/bash
# usage: matrix.sh [tier] [pattern] : run every seeded change against the check of its own property (scratch worktrees, /repo untouched)
tier=${1:-quick}; pat=${2:-.}
cd /verif
for d in seeded/*/; do
  n=$(basename $d); [[ $n =~ $pat ]] || continue
  p=${n%%-*}
  [ -f harness/props/$(echo $p | tr A-Z a-z).py ] || { echo "$n: no check for $p yet"; continue; }
  tools/try_mutant_wt.sh $n $p $tier | head -1
done
